------------------------------- MODULE Policy -------------------------------
(***************************************************************************)
(* C14 (evaluation half): reference semantics of routing-policy evaluation *)
(* over a W-bit prefix space, small AS_PATH / community alphabets and a    *)
(* fixed catalogue of defined sets with nested, overlapping and            *)
(* out-of-range prefix entries.  Function-style: TLC enumerates            *)
(* (policy, route) cases and `Eval` gives the required outcome.            *)
(*                                                                         *)
(*  - statements are tried in order; a statement applies when ALL its      *)
(*    conditions hold; the first non-pass disposition wins; actions of     *)
(*    statements that applied accumulate (later statements see them);      *)
(*  - a prefix set matches when SOME entry covers the route's prefix and   *)
(*    the route's length lies in that entry's range;                       *)
(*  - ANY / ALL / INVERT mean what they say.                               *)
(***************************************************************************)
EXTENDS Naturals, Sequences, FiniteSets, TLC

CONSTANTS W, Mode     \* Mode = "cond": one condition per policy; "chain": two-statement policies

VARIABLE c

Pow2(n) == CASE n = 0 -> 1 [] n = 1 -> 2 [] n = 2 -> 4 [] n = 3 -> 8 [] n = 4 -> 16
Prefixes == UNION {{[len |-> l, val |-> v] : v \in 0..(Pow2(l) - 1)} : l \in 0..W}
Covers(a, b) == a.len <= b.len /\ (b.val \div Pow2(b.len - a.len)) = a.val

\* ---- defined sets ---------------------------------------------------------
E(l, v, mn, mx) == [len |-> l, val |-> v, min |-> mn, max |-> mx]
PrefixSets ==
  [ ps1 |-> {E(1, 0, 1, 3), E(2, 1, 3, 3)},     \* nested entries: the longer one has the narrower range
    ps2 |-> {E(2, 2, 2, 2)},                    \* exact match only
    ps3 |-> {E(0, 0, 1, 2)},                    \* covers the whole W-bit space, lengths 1..2
    ps4 |-> {E(2, 0, 1, 3)},                    \* range reaching BELOW the entry's own length
    ps5 |-> {E(1, 1, 1, 1), E(2, 2, 2, 3), E(3, 7, 3, 3)},    \* three nested entries
    \* an entry for the whole space (at bit offset 0: the default route 0.0.0.0/0 or ::/0) whose range excludes most
    \* routes, next to entries that cover them: every entry counts, not only the shortest
    ps6 |-> {E(0, 0, 0, 0), E(1, 1, 2, 3)},
    ps7 |-> {E(0, 0, 3, 3), E(2, 1, 2, 2)} ]
PsNames == {"ps1", "ps2", "ps3", "ps4", "ps5", "ps6", "ps7"}

PrefixSetMatch(name, p) == \E e \in PrefixSets[name] : Covers([len |-> e.len, val |-> e.val], p) /\ e.min <= p.len /\ p.len <= e.max

\* AS paths: sequences of segments [t, as] (t: "seq" | "set"); patterns on single AS numbers
AsPaths ==
  [ empty |-> <<>>,
    a1    |-> << [t |-> "seq", as |-> <<65001>>] >>,
    a21   |-> << [t |-> "seq", as |-> <<65002, 65001>>] >>,
    a32   |-> << [t |-> "seq", as |-> <<65003, 65002>>] >>,
    a13   |-> << [t |-> "seq", as |-> <<65001, 65003>>] >>,
    s1    |-> << [t |-> "set", as |-> <<65001>>] >>,
    a2e   |-> << [t |-> "seq", as |-> <<65002>>], [t |-> "seq", as |-> <<>>] >>,   \* trailing empty segment (API input)
    \* no AS_PATH attribute at all (a route injected through the API may lack it): it matches no pattern, and it has no
    \* length that a length comparison could hold for
    none  |-> <<>> ]
ApNames == {"empty", "a1", "a21", "a32", "a13", "s1", "a2e", "none"}

RECURSIVE FlatAs(_)
FlatAs(q) == IF q = <<>> THEN <<>> ELSE Head(q).as \o FlatAs(Tail(q))
\* hop count: AS_SET counts one
RECURSIVE HopCount(_)
HopCount(q) == IF q = <<>> THEN 0 ELSE (IF Head(q).t = "set" THEN 1 ELSE Len(Head(q).as)) + HopCount(Tail(q))

\* pattern kinds on one AS number: include _N_, leftmost ^N_, origin _N$, only ^N$
PatMatch(pat, q) ==
  LET f == FlatAs(q) IN
  CASE pat.k = "include"  -> \E i \in 1..Len(f) : f[i] = pat.n
    [] pat.k = "leftmost" -> f # <<>> /\ f[1] = pat.n
    [] pat.k = "origin"   -> f # <<>> /\ f[Len(f)] = pat.n
    [] pat.k = "only"     -> f = << pat.n >>
P(k, n) == [k |-> k, n |-> n]
AsPathSets ==
  [ as1 |-> {P("origin", 65001)},
    as2 |-> {P("leftmost", 65002)},
    as3 |-> {P("include", 65003), P("origin", 65001)},
    as4 |-> {P("only", 65001)} ]
AsNames == {"as1", "as2", "as3", "as4"}

\* communities 65000:n.  A pattern is a number n (the literal "65000:n") or a wildcard code; every pattern is matched against
\* the WHOLE community, so a longer community that merely contains a match does not count:
\*   1000  "65000:1."       one arbitrary character after the 1: 65000:10 .. 65000:19
\*   1001  "65000:12[0-9]"  65000:120 .. 65000:129
CommPatMatches(x, cm) ==
  CASE x = 1000 -> \E n \in cm : n \in 10..19
    [] x = 1001 -> \E n \in cm : n \in 120..129
    [] OTHER    -> x \in cm
CommSets == [ cs1 |-> {1}, cs2 |-> {1, 2}, cs3 |-> {1000}, cs4 |-> {1001, 2} ]
CsNames == {"cs1", "cs2", "cs3", "cs4"}
Comms == {{}, {1}, {1, 2}, {2}, {3}, {10}, {123}, {1234, 2}}

\* ---- set-option semantics ---------------------------------------------------
SetOpt(opt, pats, M(_)) ==
  CASE opt = "any"    -> \E x \in pats : M(x)
    [] opt = "all"    -> \A x \in pats : M(x)
    [] opt = "invert" -> ~(\E x \in pats : M(x))

\* ---- conditions -------------------------------------------------------------
Conds ==      [k : {"prefix"}, set : PsNames, opt : {"any", "invert"}]
         \cup [k : {"aspath"}, set : AsNames, opt : {"any", "all", "invert"}]
         \cup [k : {"community"}, set : CsNames, opt : {"any", "all", "invert"}]
         \cup [k : {"aslen"}, cmp : {"eq", "ge", "le"}, n : {0, 1, 2}]

\* MED of the route: NoMed or a number on a scale where MedMax stands for 2^32 - 1 (TLC integers are 32-bit; the replay maps
\* values above 500 to 2^32 - 1 - (MedMax - m)).  Only the "act" mode varies it.
MedMax == 1000
NoMed == 2000                     \* the route has no MED
Meds == {NoMed, 5, 995}
Route == [p : Prefixes, ap : ApNames, cm : Comms, med : Meds]

\* the AS_PATH a later statement sees: `pre` copies of PrependAs in front (an AS_PATH is created if there was none)
PrependAs == 65009
RECURSIVE Rep(_, _)
Rep(x, n) == IF n = 0 THEN <<>> ELSE << x >> \o Rep(x, n - 1)
PathSeen(r, pre) == IF pre = 0 THEN AsPaths[r.ap] ELSE << [t |-> "seq", as |-> Rep(PrependAs, pre)] >> \o AsPaths[r.ap]

HoldsP(cd, r, cm, pre) ==
  CASE cd.k = "prefix"    -> IF cd.opt = "any" THEN PrefixSetMatch(cd.set, r.p) ELSE ~PrefixSetMatch(cd.set, r.p)
    [] cd.k = "aspath"    -> LET M(x) == PatMatch(x, PathSeen(r, pre)) IN SetOpt(cd.opt, AsPathSets[cd.set], M)
    [] cd.k = "community" -> LET M(x) == CommPatMatches(x, cm) IN SetOpt(cd.opt, CommSets[cd.set], M)
    [] cd.k = "aslen"     -> LET h == HopCount(PathSeen(r, pre)) IN
                             (r.ap # "none" \/ pre > 0) /\
                             CASE cd.cmp = "eq" -> h = cd.n [] cd.cmp = "ge" -> h >= cd.n [] cd.cmp = "le" -> h <= cd.n

Holds(cd, r, lp, cm) == HoldsP(cd, r, cm, 0)

\* ---- statements, policies ---------------------------------------------------
\* statement: [conds : set of conditions, disp : "none"|"accept"|"reject", act : "none"|"lp200"|"addc3"]
\* evaluation state: [d (disposition so far), lp ("keep" = untouched), cm]
\* actions: lp200 set LOCAL_PREF 200; addc3 add community 3; commset replace the communities by {4}; commrm remove community 1;
\* medadd MED + 50 (saturating at 2^32 - 1, an absent MED counts 0); medsub MED - 10 (not below 0); medset MED := 7;
\* prep2 prepend PrependAs twice.  (A next-hop action is not accepted in an import assignment; export policies set it, C09.)
Acts == {"none", "lp200", "addc3", "commset", "commrm", "medadd", "medsub", "medset", "prep2"}
MedNum(m) == IF m = NoMed THEN 0 ELSE m
Min(a, b) == IF a < b THEN a ELSE b
ApplyStmt(st, r, ev) ==
  IF ev.d # "pass" THEN ev
  ELSE IF \A cd \in st.conds : HoldsP(cd, r, ev.cm, ev.pre)
       THEN [d   |-> IF st.disp = "none" THEN "pass" ELSE st.disp,
             lp  |-> IF st.act = "lp200" THEN 200 ELSE ev.lp,
             cm  |-> CASE st.act = "addc3" -> ev.cm \cup {3} [] st.act = "commset" -> {4} [] st.act = "commrm" -> ev.cm \ {1}
                       [] OTHER -> ev.cm,
             med |-> CASE st.act = "medadd" -> Min(MedMax, MedNum(ev.med) + 50)
                       [] st.act = "medsub" -> (IF MedNum(ev.med) < 10 THEN 0 ELSE MedNum(ev.med) - 10)
                       [] st.act = "medset" -> 7
                       [] OTHER -> ev.med,
             pre |-> IF st.act = "prep2" THEN ev.pre + 2 ELSE ev.pre,
             nh  |-> IF st.act = "nhset" THEN "policy" ELSE ev.nh]
       ELSE ev

RECURSIVE RunStmts(_, _, _)
RunStmts(q, r, ev) == IF q = <<>> THEN ev ELSE RunStmts(Tail(q), r, ApplyStmt(Head(q), r, ev))

Eval(pol, r) ==
  LET ev == RunStmts(pol.stmts, r, [d |-> "pass", lp |-> 0, cm |-> r.cm, med |-> r.med, pre |-> 0, nh |-> "orig"]) IN
  [d  |-> IF ev.d = "pass" THEN pol.default ELSE ev.d, lp |-> ev.lp, cm |-> ev.cm, med |-> ev.med,
   \* the AS_PATH of an accepted route: hop count and leftmost AS (0 = the path is empty or absent)
   hops |-> HopCount(PathSeen(r, ev.pre)),
   first |-> (LET f == FlatAs(PathSeen(r, ev.pre)) IN IF f = <<>> THEN 0 ELSE f[1]),
   nh |-> ev.nh]

\* ---- the cases --------------------------------------------------------------
S(cs, d, a) == [conds |-> cs, disp |-> d, act |-> a]
\* "cond" mode: one condition, statement rejects when it holds, default accept
CondPolicies == {[stmts |-> << S({cd}, "reject", "none") >>, default |-> "accept"] : cd \in Conds}
\* "chain" mode: two statements from a small catalogue that exercises accumulation and ordering
ChainStmts ==
  { S({}, "none", "lp200"),
    S({[k |-> "community", set |-> "cs1", opt |-> "any"]}, "none", "addc3"),
    S({[k |-> "community", set |-> "cs2", opt |-> "all"]}, "accept", "none"),
    S({[k |-> "community", set |-> "cs1", opt |-> "invert"], [k |-> "aslen", cmp |-> "ge", n |-> 1]}, "reject", "none"),
    S({[k |-> "prefix", set |-> "ps1", opt |-> "any"], [k |-> "aspath", set |-> "as1", opt |-> "any"]}, "accept", "lp200"),
    S({[k |-> "aspath", set |-> "as3", opt |-> "all"]}, "reject", "addc3") }
ChainPolicies == {[stmts |-> << a, b >>, default |-> d] : a \in ChainStmts, b \in ChainStmts, d \in {"accept", "reject"}}

\* "act" mode: every pair of action statements (accumulation: the second sees what the first did), with two conditional
\* statements that read what an earlier action wrote
ActStmts == {S({}, "none", a) : a \in Acts \ {"none"}}
            \cup {S({[k |-> "aslen", cmp |-> "ge", n |-> 2]}, "reject", "none"),
                  S({[k |-> "community", set |-> "cs1", opt |-> "any"]}, "reject", "none"),
                  S({[k |-> "aspath", set |-> "as2", opt |-> "invert"]}, "accept", "medadd")}
ActPolicies == {[stmts |-> << a, b >>, default |-> "accept"] : a \in ActStmts, b \in ActStmts}

Policies == CASE Mode = "cond" -> CondPolicies [] Mode = "chain" -> ChainPolicies [] Mode = "act" -> ActPolicies
ChainRoutes == {r \in Route : r.p.len \in {2, 3} /\ r.p.val \in {0, 1, 2, 7} /\ r.med = NoMed}
ActRoutes == {r \in Route : r.p = [len |-> 2, val |-> 1] /\ r.ap \in {"empty", "a1", "a21", "s1", "none"} /\ r.cm \in {{}, {1}, {1, 2}}}

Init == c \in [pol : Policies, r : CASE Mode = "cond" -> {r \in Route : r.med = NoMed} [] Mode = "chain" -> ChainRoutes
                                      [] Mode = "act" -> ActRoutes]
Next == UNCHANGED c
Spec == Init /\ [][Next]_c

\* sanity of the reference itself
Sane ==
  LET e == Eval(c.pol, c.r) IN
  /\ e.d \in {"accept", "reject"}
  /\ (Mode # "act" => c.r.cm \subseteq e.cm)
  /\ (e.med = NoMed \/ e.med \in 0..MedMax)
  /\ (Mode = "cond" =>
        LET cd == CHOOSE x \in c.pol.stmts[1].conds : TRUE IN
        (e.d = "reject") <=> Holds(cd, c.r, 0, c.r.cm))
=============================================================================
