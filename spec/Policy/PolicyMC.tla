------------------------------ MODULE PolicyMC ------------------------------
EXTENDS Policy, Json
RECURSIVE SeqOf(_)
SeqOf(Q) == IF Q = {} THEN <<>> ELSE LET x == CHOOSE y \in Q : TRUE IN <<x>> \o SeqOf(Q \ {x})
SJ(st) == [conds |-> SeqOf(st.conds), disp |-> st.disp, act |-> st.act]
PJ(p) == [stmts |-> [i \in 1..Len(p.stmts) |-> SJ(p.stmts[i])], default |-> p.default]
Emit == LET e == Eval(c.pol, c.r) IN
        PrintT(ToJson([pol |-> PJ(c.pol), r |-> [p |-> c.r.p, ap |-> c.r.ap, cm |-> SeqOf(c.r.cm), med |-> c.r.med],
                       exp |-> [d |-> e.d, lp |-> e.lp, cm |-> SeqOf(e.cm), med |-> e.med, hops |-> e.hops, first |-> e.first,
                                nh |-> e.nh]]))
=============================================================================
