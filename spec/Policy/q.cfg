CONSTANTS
  W = 3
  Mode = "chain"
SPECIFICATION Spec
INVARIANTS Sane
CHECK_DEADLOCK FALSE
