-------------------------------- MODULE Bfd --------------------------------
(***************************************************************************)
(* Beyond the listed properties: the BFD session state table of            *)
(* daemon/src/bfd.rs next_state(current, remote) against RFC 5880 6.8.6,   *)
(* function-style (16 cases).                                              *)
(***************************************************************************)
EXTENDS Naturals, TLC
States == {"AdminDown", "Down", "Init", "Up"}
\* RFC 5880 6.8.6, reception of a control packet whose State field is r while bfd.SessionState is c
Rfc(c, r) ==
  IF c = "AdminDown" THEN "AdminDown"                      \* the packet is discarded
  ELSE IF r = "AdminDown" THEN "Down"
  ELSE CASE c = "Down" -> (IF r = "Down" THEN "Init" ELSE IF r = "Init" THEN "Up" ELSE "Down")
         [] c = "Init" -> (IF r \in {"Init", "Up"} THEN "Up" ELSE "Init")
         [] c = "Up"   -> (IF r = "Down" THEN "Down" ELSE "Up")
VARIABLE c
Init == c \in [cur : States, rem : States]
Next == UNCHANGED c
Spec == Init /\ [][Next]_c
\* a session is never Up unless the remote end has been heard saying Init or Up
Sane == Rfc(c.cur, c.rem) = "Up" => c.rem \in {"Init", "Up"}
=============================================================================
