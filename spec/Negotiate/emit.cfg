SPECIFICATION Spec
INVARIANTS Mirror Emit
CHECK_DEADLOCK FALSE
