SPECIFICATION Spec
INVARIANTS Mirror
CHECK_DEADLOCK FALSE
