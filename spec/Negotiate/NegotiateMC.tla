---------------------------- MODULE NegotiateMC ----------------------------
EXTENDS Negotiate, Json, Integers
RECURSIVE SeqOf(_)
SeqOf(Q) == IF Q = {} THEN <<>> ELSE LET x == CHOOSE y \in Q : TRUE IN <<x>> \o SeqOf(Q \ {x})
FamJ(s) == [mp |-> SeqOf(s.mp), ap |-> s.ap, enh |-> SeqOf(s.enh), ord |-> s.ord]
GrJ(s) == [on |-> s.on, n |-> s.n, time |-> s.time, fams |-> SeqOf(s.fams)]
LlJ(s) == [on |-> s.on, t |-> s.t]
Emit ==
  CASE c.kind = "fam"  -> PrintT(ToJson([kind |-> "fam", l |-> FamJ(c.l), r |-> FamJ(c.r),
                                          el |-> FamExpect(c.l, c.r), er |-> FamExpect(c.r, c.l)]))
    [] c.kind = "scal" -> PrintT(ToJson([kind |-> "scal", l |-> c.l, r |-> c.r, el |-> ScalExpect(c.l, c.r), er |-> ScalExpect(c.r, c.l)]))
    [] c.kind = "gr"   -> PrintT(ToJson([kind |-> "gr", l |-> GrJ(c.l), r |-> GrJ(c.r),
                                          el |-> GrJ(GrExpect(c.l, c.r)), er |-> GrJ(GrExpect(c.r, c.l))]))
    [] c.kind = "llgr" -> PrintT(ToJson([kind |-> "llgr", l |-> LlJ(c.l), r |-> LlJ(c.r),
                                          el |-> LlgrExpect(c.l, c.r), er |-> LlgrExpect(c.r, c.l)]))
=============================================================================
