------------------------------ MODULE Negotiate ------------------------------
(***************************************************************************)
(* C16 (negotiation half): what two OPEN capability lists put in force.    *)
(* Function-style: TLC enumerates pairs of capability lists (one feature   *)
(* group at a time - the groups are negotiated independently) and, per     *)
(* pair, the record each END must derive.  The two ends must derive        *)
(* mirror images: what one may send the other must be ready to receive.    *)
(*                                                                         *)
(*   kind "fam":  MP families, ADD-PATH entries (as a LIST: duplicates,    *)
(*                entries for families without MP, invalid modes),         *)
(*                extended next hop                                         *)
(*   kind "scal": 4-octet AS, extended message                             *)
(*   kind "gr":   graceful restart;   kind "llgr": long-lived GR           *)
(***************************************************************************)
EXTENDS Naturals, Sequences, FiniteSets, TLC

VARIABLE c

Fam == {"ipv4", "ipv4vpn"}           \* two IPv4-AFI families: both can carry an extended next hop

\* ---- kind "fam" -------------------------------------------------------------
\* ADD-PATH entry lists: the interesting shapes for family "ipv4" (and a fixed one for "ipv4vpn")
ApLists == { <<>>,
             << <<"ipv4", 0>> >>, << <<"ipv4", 1>> >>, << <<"ipv4", 2>> >>, << <<"ipv4", 3>> >>,
             << <<"ipv4", 7>> >>, << <<"ipv4", 5>> >>, << <<"ipv4", 6>> >>, << <<"ipv4", 4>> >>,  \* undefined values (extra bits)
             << <<"ipv4", 3>>, <<"ipv4", 0>> >>, << <<"ipv4", 1>>, <<"ipv4", 2>> >>,   \* conflicting duplicates
             << <<"ipv4vpn", 3>> >>, << <<"ipv4", 3>>, <<"ipv4vpn", 3>> >> }
\* ord: the order of the capabilities inside the OPEN - Multiprotocol before ADD-PATH (what this daemon sends), ADD-PATH first,
\* or a Multiprotocol capability repeated after ADD-PATH.  The order carries no meaning.
FamSide ==      [mp : SUBSET Fam, ap : ApLists, enh : SUBSET Fam, ord : {"mp_ap"}]
           \cup [mp : SUBSET Fam, ap : {<< <<"ipv4", 3>> >>, << <<"ipv4", 1>> >>}, enh : {{}}, ord : {"ap_mp", "mp_ap_mp"}]

\* the mode a side advertises for f: none, or - when all its entries for f agree - that mode; "open" when they conflict
Modes(side, f) == {side.ap[i][2] : i \in {j \in 1..Len(side.ap) : side.ap[j][1] = f}}
Adv(side, f) == IF Modes(side, f) = {} THEN 0
                ELSE IF Cardinality(Modes(side, f)) = 1 THEN CHOOSE m \in Modes(side, f) : TRUE
                ELSE 99
Valid(m) == m \in 0..3
HasTx(m) == m \in {2, 3}
HasRx(m) == m \in {1, 3}

\* what end `me` (talking to `peer`) must have in force; "open" = the statement does not decide
FamExpect(me, peer) ==
  [f \in Fam |->
     IF f \notin me.mp \cap peer.mp THEN [on |-> FALSE, tx |-> "no", rx |-> "no", enh |-> "no"]
     ELSE LET a == Adv(me, f) b == Adv(peer, f) IN
          [on |-> TRUE,
           \* conflicting duplicates (99): the statement does not decide.  An undefined Send/Receive value is not an
           \* advertisement of anything ("in force iff both advertised it"; RFC 7911 4: such an entry is ignored)
           \* (an undefined value in this end's OWN list cannot come from its configuration: left open)
           tx |-> IF a = 99 \/ b = 99 \/ ~Valid(a) THEN "open" ELSE IF HasTx(a) /\ HasRx(b) THEN "yes" ELSE "no",
           rx |-> IF a = 99 \/ b = 99 \/ ~Valid(a) THEN "open" ELSE IF HasRx(a) /\ HasTx(b) THEN "yes" ELSE "no",
           enh |-> IF f \in me.enh /\ f \in peer.enh THEN "yes" ELSE "no"]]

\* ---- kind "scal" ------------------------------------------------------------
ScalSide == [as4 : BOOLEAN, extmsg : BOOLEAN]
ScalExpect(me, peer) == [as4 |-> me.as4 /\ peer.as4, extmsg |-> me.extmsg /\ peer.extmsg]

\* ---- kind "gr" --------------------------------------------------------------
GrSide == {[on |-> FALSE, n |-> FALSE, time |-> 0, fams |-> {}]}
          \cup [on : {TRUE}, n : BOOLEAN, time : {0, 120}, fams : SUBSET Fam]
\* helper for `peer`'s restart: families both list; the time is the one the PEER asked for
GrExpect(me, peer) ==
  IF ~me.on \/ ~peer.on \/ me.fams \cap peer.fams = {} THEN [on |-> FALSE, n |-> FALSE, time |-> 0, fams |-> {}]
  ELSE [on |-> TRUE, n |-> me.n /\ peer.n, time |-> peer.time, fams |-> me.fams \cap peer.fams]

\* ---- kind "llgr" ------------------------------------------------------------
Absent == 99999
LlTimes == {Absent, 0, 300}
LlgrSide == {[on |-> FALSE, t |-> [f \in Fam |-> Absent]]}
            \cup {[on |-> TRUE, t |-> t] : t \in [Fam -> LlTimes]}
\* per family: in force iff both list it; stale time = the peer's, or the local one when the peer sent 0
\* (implementation choice documented in negotiate_llgr); never in force with time 0
LlgrExpect(me, peer) ==
  [f \in Fam |->
     IF ~me.on \/ ~peer.on \/ me.t[f] = Absent \/ peer.t[f] = Absent THEN 0
     ELSE IF peer.t[f] > 0 THEN peer.t[f] ELSE me.t[f]]

\* ---- the cases ----------------------------------------------------------------
Cases ==      [kind : {"fam"},  l : FamSide,  r : FamSide]
         \cup [kind : {"scal"}, l : ScalSide, r : ScalSide]
         \cup [kind : {"gr"},   l : GrSide,   r : GrSide]
         \cup [kind : {"llgr"}, l : LlgrSide, r : LlgrSide]

Init == c \in Cases
Next == UNCHANGED c
Spec == Init /\ [][Next]_c

\* the table is mirror-symmetric: what one end may send is what the other is ready to receive
Mirror ==
  /\ c.kind = "fam" =>
       \A f \in Fam :
         LET a == FamExpect(c.l, c.r)[f] b == FamExpect(c.r, c.l)[f] IN
         /\ a.on = b.on /\ a.enh = b.enh
         \* the table is mirror-symmetric wherever it decides both ends
         /\ ("open" \in {a.tx, a.rx, b.tx, b.rx} \/ (a.tx = b.rx /\ a.rx = b.tx))
  /\ c.kind = "scal" => ScalExpect(c.l, c.r) = ScalExpect(c.r, c.l)
  /\ c.kind = "gr" => GrExpect(c.l, c.r).on = GrExpect(c.r, c.l).on /\ GrExpect(c.l, c.r).fams = GrExpect(c.r, c.l).fams
                      /\ GrExpect(c.l, c.r).n = GrExpect(c.r, c.l).n
  /\ c.kind = "llgr" => \A f \in Fam : (LlgrExpect(c.l, c.r)[f] > 0) = (LlgrExpect(c.r, c.l)[f] > 0)
                                       \/ c.l.t[f] = 0 \/ c.r.t[f] = 0
=============================================================================
