------------------------------ MODULE BmpSession ------------------------------
(***************************************************************************)
(* C19 (and the peer-up / peer-down clause of C18) at session level: what  *)
(* a BMP monitoring station learns from the stream BmpClient::serve writes *)
(* while BGP sessions come and go and routes change.  One action per       *)
(* event the daemon reacts to; the station side is a fold of the stream:   *)
(*   Peer Up(p)            -> known := known + p                            *)
(*   Peer Down(p)          -> known := known - p, mirror[p] := {}           *)
(*   Route Monitoring(p)   -> mirror[p] +/- the prefixes of the UPDATE     *)
(* The property: while a station is connected, what it has folded IS the   *)
(* daemon's state - the peers it believes up are the established ones, and *)
(* per peer the routes it holds are that peer's Adj-RIB-In; it never sees  *)
(* a Peer Down (or a route) for a peer it was not told is up.              *)
(***************************************************************************)
EXTENDS Naturals, FiniteSets, TLC

CONSTANTS Peers, Pfx

VARIABLE s   \* [up, rib, st, known, mirror]

Init == s = [up |-> [p \in Peers |-> FALSE], rib |-> [p \in Peers |-> {}], st |-> "off",
             known |-> {}, mirror |-> [p \in Peers |-> {}]]

Ops == [k : {"establish", "drop"}, p : Peers] \cup [k : {"announce", "withdraw"}, p : Peers, x : Pfx] \cup [k : {"connect", "disconnect"}]

Enabled(st, op) ==
  CASE op.k = "establish" -> ~st.up[op.p]
    [] op.k = "drop"      -> st.up[op.p]
    [] op.k = "announce"  -> st.up[op.p] /\ op.x \notin st.rib[op.p]
    [] op.k = "withdraw"  -> st.up[op.p] /\ op.x \in st.rib[op.p]
    [] op.k = "connect"   -> st.st = "off"
    [] op.k = "disconnect" -> st.st = "on"

On(st) == st.st = "on"

Step(st, op) ==
  CASE op.k = "establish" ->
         [st EXCEPT !.up[op.p] = TRUE, !.known = IF On(st) THEN @ \cup {op.p} ELSE @]
    [] op.k = "drop" ->
         [st EXCEPT !.up[op.p] = FALSE, !.rib[op.p] = {},
                    !.known = @ \ {op.p}, !.mirror[op.p] = {}]
    [] op.k = "announce" ->
         [st EXCEPT !.rib[op.p] = @ \cup {op.x}, !.mirror[op.p] = IF On(st) /\ op.p \in st.known THEN @ \cup {op.x} ELSE @]
    [] op.k = "withdraw" ->
         [st EXCEPT !.rib[op.p] = @ \ {op.x}, !.mirror[op.p] = IF On(st) /\ op.p \in st.known THEN @ \ {op.x} ELSE @]
    [] op.k = "connect" ->
         \* Initiation, then Peer Up for every established peer, then its Adj-RIB-In and End-of-RIB
         [st EXCEPT !.st = "on", !.known = {p \in Peers : st.up[p]}, !.mirror = [p \in Peers |-> IF st.up[p] THEN st.rib[p] ELSE {}]]
    [] op.k = "disconnect" ->
         [st EXCEPT !.st = "off", !.known = {}, !.mirror = [p \in Peers |-> {}]]

\* the Peer Up / Peer Down messages a step puts on the stream
PeerUps(st, op)   == CASE op.k = "establish" /\ On(st) -> {op.p} [] op.k = "connect" -> {p \in Peers : st.up[p]} [] OTHER -> {}
PeerDowns(st, op) == IF op.k = "drop" /\ On(st) /\ op.p \in st.known THEN {op.p} ELSE {}

Next == \E op \in Ops : Enabled(s, op) /\ s' = Step(s, op)
Spec == Init /\ [][Next]_s

StationInStep == On(s) => /\ s.known = {p \in Peers : s.up[p]}
                          /\ \A p \in Peers : s.mirror[p] = s.rib[p]
OffIsEmpty    == ~On(s) => s.known = {} /\ \A p \in Peers : s.mirror[p] = {}
\* a Peer Down is only ever sent for a peer whose Peer Up was sent on this stream
DownOnlyAfterUp == [][\A op \in Ops : (Enabled(s, op) /\ s' = Step(s, op)) => PeerDowns(s, op) \subseteq s.known]_s
=============================================================================
