CONSTANTS
  Peers = {"a", "b"}
  Pfx = {"x", "y"}
SPECIFICATION Spec
INVARIANTS StationInStep OffIsEmpty
PROPERTY DownOnlyAfterUp
CHECK_DEADLOCK FALSE
