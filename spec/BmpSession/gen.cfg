CONSTANTS
  Peers = {"a", "b"}
  Pfx = {"x", "y"}
SPECIFICATION GenSpec
INVARIANTS Emit
CHECK_DEADLOCK FALSE
