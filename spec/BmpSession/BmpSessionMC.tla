---------------------------- MODULE BmpSessionMC ----------------------------
EXTENDS BmpSession, Json
VARIABLES pre, act
GenInit == Init /\ pre = s /\ act = [k |-> "init"]
GenNext == \E op \in Ops : Enabled(s, op) /\ s' = Step(s, op) /\ act' = op /\ pre' = s
GenSpec == GenInit /\ [][GenNext]_<<s, pre, act>>
SetToSeq(S) == CHOOSE q \in [1..Cardinality(S) -> S] : \A i, j \in 1..Cardinality(S) : i # j => q[i] # q[j]
Emit == act.k = "init" \/ PrintT(ToJson([pre |-> pre, op |-> act, post |-> s, ups |-> PeerUps(pre, act), downs |-> PeerDowns(pre, act)]))
=============================================================================
