---------------------------- MODULE Rfc7606MC ----------------------------
EXTENDS Rfc7606, Json
Emit == PrintT(ToJson([case |-> c, reset_ok |-> ResetOk(c), withdraw_ok |-> WithdrawOk(c), install_ok |-> InstallOk(c),
                       keep1 |-> Keep1(c), drop1 |-> Drop1(c), keep2 |-> Keep2(c), drop2 |-> Drop2(c)]))
=============================================================================
