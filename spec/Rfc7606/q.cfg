CONSTANTS
  Pairs = FALSE
SPECIFICATION Spec
INVARIANTS Sane
CHECK_DEADLOCK FALSE
