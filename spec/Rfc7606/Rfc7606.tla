------------------------------ MODULE Rfc7606 ------------------------------
(***************************************************************************)
(* C05: what may happen to an UPDATE one of whose attributes is malformed, *)
(* has wrong flags, is an unrecognised well-known attribute, is duplicated *)
(* or whose mandatory attribute is missing.  Function-style: the finite    *)
(* matrix  base message x peer kind x AS width x attribute type x          *)
(* corruption kind  with, per case, the SET of outcomes the statement      *)
(* allows:                                                                 *)
(*   ok        the route is installed, the attribute is believed            *)
(*   discard   the route is installed WITHOUT the faulty attribute          *)
(*   withdraw  the announced prefixes are treated as withdrawn             *)
(*   reset     the session is reset with a NOTIFICATION                    *)
(* In every outcome but reset, withdrawals carried by the same message     *)
(* must take effect.                                                       *)
(***************************************************************************)
EXTENDS Naturals, Sequences, FiniteSets, TLC

CONSTANT Pairs     \* TRUE: also cases with a second corrupted attribute

VARIABLE c

Mandatory   == {"ORIGIN", "AS_PATH", "NEXT_HOP"}
Discret     == {"LOCAL_PREF", "ATOMIC_AGGREGATE"}
OptTrans    == {"AGGREGATOR", "COMMUNITY", "EXT_COMMUNITY", "LARGE_COMMUNITY"}
OptNonTrans == {"MED", "ORIGINATOR_ID", "CLUSTER_LIST"}
As4         == {"AS4_PATH", "AS4_AGGREGATOR"}
Unknown     == {"UNKNOWN_WELLKNOWN", "UNKNOWN_OPT_TRANS", "UNKNOWN_OPT_NONTRANS"}
AttrTypes   == Mandatory \cup Discret \cup OptTrans \cup OptNonTrans \cup As4 \cup Unknown

Corruptions == {"none", "len", "len_plus1", "len16", "len32", "flags_opt", "flags_trans", "value", "dup", "omit", "attr_overrun", "hdr_trunc", "block_overrun"}
\* len16 / len32: a legacy NEXT_HOP whose value is 16 or 32 octets long (what an IPv6 next hop looks like inside MP_REACH);
\*                RFC 4271: the NEXT_HOP attribute is four octets, anything else is an attribute length error
\* attr_overrun: the (last) attribute's declared length runs past the attribute block
\* hdr_trunc:    the attribute block ends inside the (last) attribute's header, after flags and type
\* block_overrun: the Total Path Attribute Length runs past the end of the message
Bases == {"v4", "v4_wd", "v6", "v6_wd", "mix", "only4_wd", "only6_wd"}    \* legacy IPv4 NLRI / MP_REACH IPv6, with or without withdrawals;
                                                  \* mix: ONE UPDATE announcing both an IPv4 prefix (legacy NLRI) and an IPv6
                                                  \* prefix (MP_REACH): whatever happens, happens to both
                                                  \* only4_wd / only6_wd: attributes and withdrawals but NO announced prefix
Peers == {"ebgp", "ibgp"}

MpAttrs == {"MP_REACH", "MP_UNREACH"}
AllAttrs == AttrTypes \cup MpAttrs
Cases == [base : Bases, peer : Peers, as4 : BOOLEAN, attr : AllAttrs, corrupt : Corruptions,
          attr2 : AttrTypes \cup {"none"}, corrupt2 : Corruptions]

\* which (attribute, corruption) pairs make sense
HasValueCheck == {"ORIGIN", "AS_PATH"}                     \* attributes with RFC-invalid values
FixedOrGrained == AttrTypes \ {"AS_PATH", "AS4_PATH", "UNKNOWN_OPT_TRANS", "UNKNOWN_OPT_NONTRANS", "UNKNOWN_WELLKNOWN"}
CompMeaningful(x, at, co) ==
  /\ (co = "value" => at \in HasValueCheck)
  /\ (co = "len"   => at \in FixedOrGrained \cup {"AS_PATH", "AS4_PATH"} \cup MpAttrs)
  /\ (co = "len_plus1" => at \in FixedOrGrained \cup {"AS_PATH", "AS4_PATH"})     \* one stray octet after a well-formed value
  /\ (co \in {"len16", "len32"} => at = "NEXT_HOP")
  /\ (co \in {"flags_opt", "flags_trans"} => at \notin Unknown)
  /\ (co = "omit"  => at \in Mandatory)
  /\ (at = "NEXT_HOP" => x.base \in {"v4", "v4_wd", "mix"})    \* MP_REACH carries its own next hop
  /\ (x.base \in {"mix", "only4_wd", "only6_wd"} => at \notin MpAttrs)   \* the faulty attribute is one that can be located and skipped
  /\ (x.base \in {"only4_wd", "only6_wd"} => at # "NEXT_HOP")
  /\ (at = "MP_REACH" => x.base \in {"v6", "v6_wd"} /\ co \in {"none", "len", "flags_opt", "flags_trans", "dup"})
  /\ (at = "MP_UNREACH" => x.base = "v6_wd" /\ co \in {"len", "flags_opt", "flags_trans", "dup"})
  /\ (at \in Unknown => co \in {"none", "attr_overrun", "hdr_trunc"})
  /\ (at \in As4 => ~x.as4 \/ co = "none")       \* AS4_* are only meaningful on 2-octet sessions
  /\ (at \in {"ORIGINATOR_ID", "CLUSTER_LIST", "LOCAL_PREF"} /\ x.peer = "ebgp" => co = "none")
Meaningful(x) ==
  /\ CompMeaningful(x, x.attr, x.corrupt)
  /\ IF x.attr2 = "none" THEN x.corrupt2 = "none"
     ELSE /\ Pairs
          /\ x.attr2 # x.attr /\ x.attr \notin MpAttrs
          /\ x.corrupt2 \in {"len", "len_plus1", "len16", "len32", "flags_opt", "flags_trans", "value", "dup"}
          /\ x.corrupt \notin {"none", "block_overrun"}
          /\ CompMeaningful(x, x.attr2, x.corrupt2)

\* outcomes allowed by ONE corrupted attribute
A(x, at, co) ==
  CASE at \in MpAttrs ->
         IF co = "none" THEN {"ok"}
         ELSE IF co = "dup" THEN {"ok", "withdraw", "reset"}
         ELSE {"withdraw", "reset"}           \* the NLRI are inside the faulty attribute
    [] at \notin MpAttrs /\ co = "none" ->
         IF at = "UNKNOWN_WELLKNOWN" THEN {"withdraw"}           \* unrecognised well-known attribute
         ELSE IF at = "UNKNOWN_OPT_NONTRANS" THEN {"discard"}
         ELSE IF x.peer = "ebgp" /\ at \in {"LOCAL_PREF", "ORIGINATOR_ID", "CLUSTER_LIST"}
              THEN {"discard"}                                    \* iBGP-only attribute from an external peer
         ELSE IF at \in As4 THEN {"discard", "ok"}   \* RFC 6793: ignored between NEW speakers, merged into
                                                     \* AS_PATH / AGGREGATOR (and then gone) on a 2-octet session
         ELSE {"ok"}
    [] at \notin MpAttrs /\ co \in {"len", "len_plus1", "len16", "len32", "flags_opt", "flags_trans", "value"} ->
         IF at \in OptNonTrans \cup As4 THEN {"withdraw", "discard"} ELSE {"withdraw"}
    [] at \notin MpAttrs /\ co = "dup" -> {"ok", "withdraw"} \cup (IF at \in As4 THEN {"discard"} ELSE {})
                                                         \* RFC 7606 3.g: all but the first are discarded
    [] at \notin MpAttrs /\ co = "omit" -> {"withdraw"}
    [] at \notin MpAttrs /\ co \in {"attr_overrun", "hdr_trunc"} -> {"withdraw", "reset"}
    [] at \notin MpAttrs /\ co = "block_overrun" -> {"reset"}              \* the NLRI cannot be located

Allowed(x) == A(x, x.attr, x.corrupt)
A2(x) == IF x.attr2 = "none" THEN {"ok", "discard"} ELSE A(x, x.attr2, x.corrupt2)

\* what the whole message may do
ResetOk(x)    == "reset" \in Allowed(x) \cup (IF x.attr2 = "none" THEN {} ELSE A2(x))
WithdrawOk(x) == "withdraw" \in Allowed(x) \cup (IF x.attr2 = "none" THEN {} ELSE A2(x))
InstallOk(x)  == Allowed(x) \cap {"ok", "discard"} # {} /\ A2(x) \cap {"ok", "discard"} # {}
\* if installed: may the attribute be present / must it be (absent allowed)?
Keep1(x) == "ok" \in Allowed(x)
Drop1(x) == "discard" \in Allowed(x) \/ x.corrupt = "omit"
Keep2(x) == "ok" \in A2(x)
Drop2(x) == "discard" \in A2(x)

\* withdrawals of the same message take effect unless the session is reset
WithdrawalsApply(x, outcome) == x.base \in {"v4_wd", "v6_wd", "only4_wd", "only6_wd"} /\ outcome # "reset"

Init == c \in {x \in Cases : Meaningful(x)}
Next == UNCHANGED c
Spec == Init /\ [][Next]_c

Sane == /\ Allowed(c) # {} /\ A2(c) # {}
        /\ (ResetOk(c) \/ WithdrawOk(c) \/ InstallOk(c))
        /\ (InstallOk(c) => (Keep1(c) \/ Drop1(c)) /\ (Keep2(c) \/ Drop2(c)))
        /\ ("reset" \in Allowed(c) => c.corrupt \in {"attr_overrun", "hdr_trunc", "block_overrun"} \/ c.attr \in MpAttrs)
        /\ ("ok" \in Allowed(c) => c.corrupt \in {"none", "dup"})
        /\ (c.attr2 # "none" => ~(Keep1(c) /\ Keep2(c) /\ ~WithdrawOk(c)))      \* two errors never leave the UPDATE intact
=============================================================================
