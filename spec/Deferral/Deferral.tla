------------------------------ MODULE Deferral ------------------------------
(***************************************************************************)
(* C11: the Restarting-Speaker selection-deferral machine                  *)
(* (`gr::RestartingDeferral`) together with its driver glue                *)
(* (`process_restarting_outputs`: per-family table flags, the restarting   *)
(* flag) and the deferred tables of Rib.tla reduced to what C11 needs:     *)
(* which prefixes were received while a family was deferred and how often  *)
(* each was announced.                                                     *)
(*                                                                         *)
(* One action per `RestartingInput`, plus route arrival.                   *)
(***************************************************************************)
EXTENDS Naturals, Sequences, FiniteSets, TLC

CONSTANTS Peer,        \* configured peers
          Fam,         \* address families
          GrCfg,       \* [Peer -> SUBSET Fam]: configured GR families (empty: no GR)
          Pfx          \* [Fam -> set of prefixes that may arrive]

VARIABLE s

Helpers == {p \in Peer : GrCfg[p] # {}}
AllFam  == UNION {GrCfg[p] : p \in Peer}

Init ==
  s = [ st       |-> IF Helpers = {} THEN "Completed" ELSE "Awaiting",
        pending  |-> [p \in Peer |-> GrCfg[p]],     \* empty set = not pending
        timer    |-> FALSE,                          \* selection-deferral timer running
        flag     |-> IF Helpers = {} THEN {} ELSE AllFam,   \* families whose table is deferring
        restarting |-> Helpers # {},
        held     |-> [f \in Fam |-> {}],             \* prefixes received while f was deferring
        ann      |-> [f \in Fam |-> [x \in Pfx[f] |-> 0]] ]   \* announcements per prefix

Ops ==      [k : {"est"}, p : Peer, fams : SUBSET Fam]
       \cup [k : {"eor"}, p : Peer, f : Fam]
       \cup [k : {"withdrawn"}, p : Peer]
       \cup [k : {"timer"}]
       \cup {[k |-> "route", f |-> f, x |-> x] : f \in Fam, x \in UNION {Pfx[g] : g \in Fam}}

Enabled(st, op) ==
  CASE op.k = "route" -> op.x \in Pfx[op.f]
    [] op.k = "timer" -> st.timer          \* the timer fires only if it was started
    [] OTHER -> TRUE

PendingFams(pd) == UNION {pd[p] : p \in Peer}
NonePending(pd) == \A p \in Peer : pd[p] = {}

\* families of `cand` that no peer is pending for any more
Done(pd, cand) == {f \in cand : \A p \in Peer : f \notin pd[p]}

\* machine step: [st, pending, out] where out = [complete : SUBSET Fam, start : BOOLEAN, end : BOOLEAN, rest : SUBSET Fam]
NoOut == [complete |-> {}, start |-> FALSE, end |-> FALSE, rest |-> {}]

Finish(stname, pd, comp) ==
  IF NonePending(pd)
  THEN [st |-> "Completed", pending |-> pd, out |-> [NoOut EXCEPT !.complete = comp, !.end = TRUE]]
  ELSE [st |-> stname, pending |-> pd, out |-> [NoOut EXCEPT !.complete = comp]]

Machine(st, op) ==
  LET pd == st.pending IN
  IF st.st = "Completed" \/ op.k = "route" THEN [st |-> st.st, pending |-> pd, out |-> NoOut]
  ELSE IF op.k = "est" THEN
         IF op.fams = {} THEN
           LET pd2 == [pd EXCEPT ![op.p] = {}] IN Finish(st.st, pd2, Done(pd2, pd[op.p]))
         ELSE IF pd[op.p] # {} THEN
           LET pd2 == [pd EXCEPT ![op.p] = op.fams]
               comp == Done(pd2, pd[op.p] \ op.fams)
           IN [st |-> "Deferring", pending |-> pd2,
               out |-> [NoOut EXCEPT !.complete = comp, !.start = (st.st = "Awaiting")]]
         ELSE [st |-> st.st, pending |-> pd, out |-> NoOut]     \* unknown / not pending peer
  ELSE IF op.k = "withdrawn" THEN
         LET pd2 == [pd EXCEPT ![op.p] = {}] IN Finish(st.st, pd2, Done(pd2, pd[op.p]))
  ELSE IF op.k = "eor" /\ st.st = "Deferring" THEN
         IF op.f \in pd[op.p]
         THEN LET pd2 == [pd EXCEPT ![op.p] = @ \ {op.f}] IN Finish("Deferring", pd2, Done(pd2, {op.f}))
         ELSE [st |-> st.st, pending |-> pd, out |-> NoOut]
  ELSE IF op.k = "timer" /\ st.st = "Deferring" THEN
         [st |-> "Completed", pending |-> [p \in Peer |-> {}],
          out |-> [NoOut EXCEPT !.end = TRUE, !.rest = PendingFams(pd)]]
  ELSE [st |-> st.st, pending |-> pd, out |-> NoOut]

\* driver glue + tables
StepOut(st, op) ==
  LET m     == Machine(st, op)
      ended == (m.out.complete \cup m.out.rest) \cap st.flag    \* table flags actually cleared now
      st1   == [st EXCEPT
                 !.st = m.st, !.pending = m.pending,
                 !.timer = IF m.out.end THEN FALSE ELSE IF m.out.start THEN TRUE ELSE @,
                 !.flag = @ \ (m.out.complete \cup m.out.rest),
                 !.restarting = IF m.out.end THEN FALSE ELSE @,
                 \* ending the deferral of f announces every held prefix once
                 !.ann = [f \in Fam |-> [x \in Pfx[f] |->
                            IF f \in ended /\ x \in st.held[f] THEN @[f][x] + 1 ELSE @[f][x]]],
                 !.held = [f \in Fam |-> IF f \in ended THEN {} ELSE @[f]]]
      st2   == IF op.k = "route"
               THEN IF op.f \in st1.flag
                    THEN [st1 EXCEPT !.held[op.f] = @ \cup {op.x}]           \* held back
                    ELSE [st1 EXCEPT !.ann[op.f][op.x] = IF @ < 2 THEN @ + 1 ELSE @]   \* normal path (count capped)
               ELSE st1
  IN [s |-> st2, out |-> m.out]

Step(st, op) == StepOut(st, op).s
Out(st, op)  == StepOut(st, op).out

Next == \E op \in Ops : Enabled(s, op) /\ s' = Step(s, op)
Spec == Init /\ [][Next]_s

---------------------------------------------------------------------------
\* Properties

TypeOK == s.st \in {"Awaiting", "Deferring", "Completed"}

\* a family does not stay deferred once no peer is pending for it ...
FlagIffPending ==
  \A f \in Fam : (f \in s.flag) => (\E p \in Peer : f \in s.pending[p])

\* ... and its deferral ends only when no pending peer lists it, or on timer expiry
EndsOnlyWhenDone ==
  \A op \in Ops : Enabled(s, op) =>
    LET t == Step(s, op) IN
    \A f \in Fam : (f \in s.flag /\ f \notin t.flag) =>
       (op.k = "timer" \/ \A p \in Peer : f \notin t.pending[p])

\* a peer without graceful restart never blocks; nothing pending => completed, flag cleared
NoPendingMeansCompleted ==
  /\ \A p \in Peer : GrCfg[p] = {} => s.pending[p] = {}
  /\ (NonePending(s.pending) <=> s.st = "Completed")
  /\ (s.st = "Completed" => (s.flag = {} /\ ~s.restarting /\ ~s.timer))
  /\ (s.st # "Completed" => s.restarting)

\* nothing received for a deferring family is announced before its deferral ends,
\* and afterwards it has been announced (held is emptied only by announcing)
HeldBack ==
  \A f \in Fam : \A x \in Pfx[f] : (x \in s.held[f]) => f \in s.flag

\* every prefix received while deferred is announced exactly once by the end of deferral:
\* as an action property on the step function
EndAnnouncesOnce ==
  \A op \in Ops : Enabled(s, op) =>
    LET t == Step(s, op) IN
    \A f \in Fam : \A x \in Pfx[f] :
      (x \in s.held[f] /\ x \notin t.held[f]) => t.ann[f][x] = s.ann[f][x] + 1

\* the timer runs only while deferring
TimerOnlyDeferring == s.timer => s.st = "Deferring"
=============================================================================
