---------------------------- MODULE DeferralMCR ----------------------------
EXTENDS DeferralMC
\* behaviours WITH route arrivals, for the replay of the driver glue (tlc -simulate, one worker).  Only sequences a real
\* daemon can see: a peer establishes when it has no session, negotiates a subset of the families configured for it,
\* sends End-of-RIB only while its session is up; a connection may end (PeerWithdrawn) at any time, established or not.
VARIABLE up
GenInitR == GenInit /\ up = {}
GenNextR == \E op \in Ops : /\ Enabled(s, op)
                            /\ (op.k = "est" => op.p \notin up /\ op.fams \subseteq GrCfg[op.p])
                            /\ (op.k = "eor" => op.p \in up)
                            /\ s' = Step(s, op) /\ act' = op /\ pre' = s
                            /\ up' = CASE op.k = "est" -> up \cup {op.p} [] op.k = "withdrawn" -> up \ {op.p} [] OTHER -> up
GenSpecR == GenInitR /\ [][GenNextR]_<<s, pre, act, up>>
EmitWalk == \/ act.k = "init"
            \/ PrintT(ToJson([lvl |-> TLCGet("level"), op |-> OpJ(act),
                               post |-> [st |-> s.st, pending |-> [p \in Peer |-> SeqOf(s.pending[p])], timer |-> s.timer,
                                         restarting |-> s.restarting, ann |-> s.ann]]))
=============================================================================
