---------------------------- MODULE DeferralMC ----------------------------
EXTENDS Deferral, Json
VARIABLES pre, act
GenInit == Init /\ pre = s /\ act = [k |-> "init"]
GenNext == \E op \in Ops : /\ Enabled(s, op) /\ op.k # "route" /\ s' = Step(s, op) /\ act' = op /\ pre' = s
GenSpec == GenInit /\ [][GenNext]_<<s, pre, act>>
RECURSIVE SeqOf(_)
SeqOf(S) == IF S = {} THEN <<>> ELSE LET x == CHOOSE y \in S : TRUE IN <<x>> \o SeqOf(S \ {x})
PJ(st) == [st |-> st.st, pending |-> [p \in Peer |-> SeqOf(st.pending[p])], flag |-> SeqOf(st.flag),
           restarting |-> st.restarting, timer |-> st.timer]
PO(o) == [complete |-> SeqOf(o.complete), start |-> o.start, end |-> o.end, rest |-> SeqOf(o.rest)]
OpJ(o) == IF o.k = "est" THEN [k |-> "est", p |-> o.p, fams |-> SeqOf(o.fams)] ELSE o
EmitEdge == \/ act.k = "init"
            \/ PrintT(ToJson([pre |-> PJ(pre), op |-> OpJ(act), post |-> PJ(s), obs |-> PO(Out(pre, act))]))
=============================================================================
