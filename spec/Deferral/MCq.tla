---- MODULE MCq ----
EXTENDS Deferral
cGr == [p \in {"A","B","C"} |-> CASE p = "A" -> {"v4","v6"} [] p = "B" -> {"v4"} [] p = "C" -> {}]
cPfx == [f \in {"v4","v6"} |-> IF f = "v4" THEN {"x1","x2"} ELSE {"y1"}]
====
