CONSTANTS
  Peer = {"A", "B", "C"}
  Fam = {"v4", "v6"}
  GrCfg <- cGr
  Pfx <- cPfx
SPECIFICATION Spec
INVARIANTS TypeOK FlagIffPending EndsOnlyWhenDone NoPendingMeansCompleted HeldBack EndAnnouncesOnce TimerOnlyDeferring
CHECK_DEADLOCK FALSE
