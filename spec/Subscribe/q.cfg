CONSTANTS
  Keys <- MCKeys
  ShardOf <- MCShardOf
  PeerOf <- MCPeerOf
  NShards = 2
  Sessions = {"t1", "t2"}
  Prog <- MCProgA
  SessPeer <- MCSessPeer
  Ends = {"t1"}
  Subs = {"u1"}
  Dev = {}
SPECIFICATION GenSpec
INVARIANTS Reconstructs LastEventIsCurrent
CHECK_DEADLOCK FALSE
