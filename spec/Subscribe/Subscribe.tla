------------------------------ MODULE Subscribe ------------------------------
(***************************************************************************)
(* C18: a monitoring subscriber (BMP / MRT / watch) that registers, walks  *)
(* the shards for a snapshot and then applies live events must end with    *)
(* exactly the Adj-RIB-In (pre- and post-policy) the RIB holds.             *)
(*                                                                         *)
(* Threads and their steps (one action per critical section; a step ends   *)
(* where the implementation is about to take a shard lock):                *)
(*   session thread t of peer P(t): a program of insert / remove calls,    *)
(*     each = PreLock (everything before `shards[i].lock()`) + Body (lock, *)
(*     load the subscriber list, notify, mutate, unlock); then the session *)
(*     end: DropLoad (load the list), DropShard(1..n), PeerDown.           *)
(*   subscriber: Register (rcu on the copy-on-write list), Snap(1..n)      *)
(*     (emit that shard's routes under its lock), the EndOfSnapshot        *)
(*     sentinel after the last shard.                                      *)
(*                                                                         *)
(* Dev "LoadBeforeLock": insert/remove read the subscriber list in PreLock *)
(* (hoisted out of the critical section) - the race the register-then-     *)
(* snapshot ordering exists to prevent.                                    *)
(***************************************************************************)
EXTENDS Naturals, Sequences, FiniteSets, TLC

CONSTANTS Keys, ShardOf, PeerOf,     \* key -> shard (1..NShards), key -> peer
          NShards, Sessions,         \* session threads; Prog[t] = its sequence of calls
          Prog, SessPeer, Ends,      \* Ends: the sessions that go down after their program
          Subs, Dev

VARIABLE s

After(t) == IF t \in Ends THEN <<"dload", 0>> ELSE <<"done", 0>>
Rej == 2        \* a value the import policy rejects: present pre-policy, absent post-policy
Post(v) == IF v = Rej THEN 0 ELSE v

\* session pc: <<i, phase>> with phase in "pre" | "body" for call i; after the program "dload", <<"dshard", k>>, "down", "done"
Init == s = [pre  |-> [k \in Keys |-> 0], post |-> [k \in Keys |-> 0],
             subs |-> {},
             q    |-> [u \in Subs |-> <<>>],
             spc  |-> [u \in Subs |-> <<"idle", 0>>],       \* <<"idle",0>> | <<"snap", k>> | <<"live",0>>
             pc   |-> [t \in Sessions |-> IF Prog[t] = <<>> THEN After(t) ELSE <<"pre", 1>>],
             loaded |-> [t \in Sessions |-> {}]]

Send(q, to, ev) == [u \in Subs |-> IF u \in to THEN Append(q[u], ev) ELSE q[u]]
RECURSIVE SendAll(_, _, _)
SendAll(q, to, evs) == IF evs = <<>> THEN q ELSE SendAll(Send(q, to, Head(evs)), to, Tail(evs))

\* ---- session steps ----------------------------------------------------------
PreLock(t) ==
  /\ s.pc[t][1] = "pre"
  /\ s' = [s EXCEPT !.pc[t] = <<"body", s.pc[t][2]>>,
                    !.loaded[t] = IF "LoadBeforeLock" \in Dev THEN s.subs ELSE s.loaded[t]]
Body(t) ==
  /\ s.pc[t][1] = "body"
  /\ LET i == s.pc[t][2] c == Prog[t][i]
         to == IF "LoadBeforeLock" \in Dev THEN s.loaded[t] ELSE s.subs
         evs == << <<"pre", c.key, c.val>>, <<"post", c.key, Post(c.val)>> >>
         nxt == IF i < Len(Prog[t]) THEN <<"pre", i + 1>> ELSE After(t) IN
     s' = [s EXCEPT !.pre[c.key] = c.val, !.post[c.key] = Post(c.val),
                    !.q = SendAll(s.q, to, evs), !.pc[t] = nxt]
\* session end: drop_families loads the list once, then drops shard by shard (no Adj-RIB-In events), then PeerDown
DropLoad(t) ==
  /\ s.pc[t][1] = "dload"
  /\ s' = [s EXCEPT !.pc[t] = <<"dshard", 1>>]
DropShard(t) ==
  /\ s.pc[t][1] = "dshard"
  /\ LET k == s.pc[t][2]
         gone == {x \in Keys : ShardOf[x] = k /\ PeerOf[x] = SessPeer[t]} IN
     s' = [s EXCEPT !.pre = [x \in Keys |-> IF x \in gone THEN 0 ELSE s.pre[x]],
                    !.post = [x \in Keys |-> IF x \in gone THEN 0 ELSE s.post[x]],
                    !.pc[t] = IF k < NShards THEN <<"dshard", k + 1>> ELSE <<"down", 0>>]
PeerDown(t) ==
  /\ s.pc[t][1] = "down"
  /\ s' = [s EXCEPT !.q = Send(s.q, s.subs, <<"down", SessPeer[t], 0>>), !.pc[t] = <<"done", 0>>]

\* ---- subscriber steps ---------------------------------------------------------
Register(u) ==
  /\ s.spc[u][1] = "idle"
  /\ s' = [s EXCEPT !.subs = s.subs \cup {u}, !.spc[u] = <<"snap", 1>>]
KeySeq(S) == LET RECURSIVE F(_) F(T) == IF T = {} THEN <<>> ELSE LET x == CHOOSE y \in T : TRUE IN <<x>> \o F(T \ {x}) IN F(S)
RECURSIVE SnapEvents(_)
SnapEvents(ks) == IF ks = <<>> THEN <<>>
                  ELSE LET k == Head(ks) IN
                       (IF s.pre[k] # 0 THEN << <<"pre", k, s.pre[k]>> >> ELSE <<>>)
                       \o (IF s.post[k] # 0 THEN << <<"post", k, s.post[k]>> >> ELSE <<>>)
                       \o SnapEvents(Tail(ks))
Snap(u) ==
  /\ s.spc[u][1] = "snap"
  /\ LET k == s.spc[u][2]
         evs == SnapEvents(KeySeq({x \in Keys : ShardOf[x] = k}))
         fin == IF k = NShards THEN << <<"eos", 0, 0>> >> ELSE <<>> IN
     s' = [s EXCEPT !.q = SendAll(s.q, {u}, evs \o fin),
                    !.spc[u] = IF k < NShards THEN <<"snap", k + 1>> ELSE <<"live", 0>>]

Next == \/ \E t \in Sessions : PreLock(t) \/ Body(t) \/ DropLoad(t) \/ DropShard(t) \/ PeerDown(t)
        \/ \E u \in Subs : Register(u) \/ Snap(u)
Spec == Init /\ [][Next]_s

\* ---- the property -------------------------------------------------------------
\* what a subscriber reconstructs: per view, the last event per key; PeerDown clears the peer
RECURSIVE Fold(_, _)
Fold(evs, m) ==
  IF evs = <<>> THEN m
  ELSE LET e == Head(evs) IN
       Fold(Tail(evs),
            CASE e[1] = "pre"  -> [m EXCEPT !.pre[e[2]] = e[3]]
              [] e[1] = "post" -> [m EXCEPT !.post[e[2]] = e[3]]
              [] e[1] = "down" -> [pre  |-> [k \in Keys |-> IF PeerOf[k] = e[2] THEN 0 ELSE m.pre[k]],
                                   post |-> [k \in Keys |-> IF PeerOf[k] = e[2] THEN 0 ELSE m.post[k]]]
              [] OTHER -> m)
Empty == [pre |-> [k \in Keys |-> 0], post |-> [k \in Keys |-> 0]]
Quiescent == (\A t \in Sessions : s.pc[t][1] = "done") /\ (\A u \in Subs : s.spc[u][1] = "live")
Reconstructs == Quiescent => \A u \in Subs : Fold(s.q[u], Empty) = [pre |-> s.pre, post |-> s.post]
\* while a subscriber is live and no session of that key's shard is between PreLock and Body, its view of a key it has
\* heard about is the current one - checked at quiescence only; the stronger per-key statement:
LastEventIsCurrent ==
  Quiescent => \A u \in Subs, k \in Keys :
     LET idx == {i \in 1..Len(s.q[u]) : s.q[u][i][1] = "pre" /\ s.q[u][i][2] = k} IN
     idx # {} /\ s.pre[k] # 0 => s.q[u][CHOOSE i \in idx : \A j \in idx : j <= i][3] = s.pre[k]
=============================================================================
