---------------------------- MODULE SubscribeMC ----------------------------
EXTENDS Subscribe, Json
VARIABLES pre, act

\* model values for the constants (functions cannot be written in a .cfg file)
MCKeys == {"k1", "k2", "k3"}
MCShardOf == [k1 |-> 1, k2 |-> 2, k3 |-> 1]
MCPeerOf == [k1 |-> "p1", k2 |-> "p1", k3 |-> "p2"]
C(k, v) == [key |-> k, val |-> v]
\* p1: announce k1, announce k2 with a value the import policy rejects, withdraw k1;  p2: announce k3, replace it by a rejected value
MCProgA == [t1 |-> << C("k1", 1), C("k2", 2), C("k1", 0) >>, t2 |-> << C("k3", 1), C("k3", 2) >>]
\* p1: announce, replace, then the session ends;  p2: announce a rejected value, replace it by an accepted one, withdraw
MCProgB == [t1 |-> << C("k2", 1), C("k1", 1), C("k2", 2) >>, t2 |-> << C("k3", 2), C("k3", 1), C("k3", 0) >>]
MCProgC == [t1 |-> << C("k1", 1) >>, t2 |-> << C("k3", 1) >>]
MCSessPeer == [t1 |-> "p1", t2 |-> "p2"]

\* the thread that moves and the step it takes, for the replay scheduler
GenInit == Init /\ pre = s /\ act = [th |-> "init", step |-> "-"]
Move(th, step, A) == A /\ pre' = s /\ act' = [th |-> th, step |-> step]
GenNext == \/ \E t \in Sessions : \/ Move(t, "prelock", PreLock(t)) \/ Move(t, "body", Body(t)) \/ Move(t, "dload", DropLoad(t))
                                  \/ Move(t, "dshard", DropShard(t)) \/ Move(t, "down", PeerDown(t))
           \/ \E u \in Subs : Move(u, "register", Register(u)) \/ Move(u, "snap", Snap(u))
GenSpec == GenInit /\ [][GenNext]_<<s, pre, act>>

RECURSIVE SeqOf(_)
SeqOf(Q) == IF Q = {} THEN <<>> ELSE LET x == CHOOSE y \in Q : TRUE IN <<x>> \o SeqOf(Q \ {x})
EmitWalk == \/ act.th = "init"
            \/ PrintT(ToJson([lvl |-> TLCGet("level"), th |-> act.th, step |-> act.step,
                              rib |-> [pre |-> s.pre, post |-> s.post], quiescent |-> Quiescent]))
=============================================================================
