---------------------------- MODULE GrMachineMC ----------------------------
\* The pure GrState machine of GrHelper.tla on its own: every (state, input) pair,
\* unconstrained by the driver, emitted as EDGE lines for replay on gr::GrState.
EXTENDS GrHelper, Json

VARIABLES g, pre, act

MOps ==      [k : {"drop"}, gr : SUBSET Fam, llgr : SUBSET Fam]
        \cup [k : {"est"}, gr : SUBSET Fam]
        \cup [k : {"eor", "llgrtimer"}, f : Fam]
        \cup [k : {"timer"}]

MStep(x, op) ==
  CASE op.k = "drop"      -> MDropped(x, op.gr, op.llgr)
    [] op.k = "est"       -> MEstablished(x, op.gr)
    [] op.k = "eor"       -> MEor(x, op.f)
    [] op.k = "timer"     -> MTimer(x)
    [] op.k = "llgrtimer" -> MLlgrTimer(x, op.f)

GenInit == g = NoGr /\ pre = NoGr /\ act = [k |-> "init"] /\ s = [dummy |-> 0]
GenNext == \E op \in MOps : /\ g' = MStep(g, op).g /\ act' = op /\ pre' = g /\ UNCHANGED s
GenSpec == GenInit /\ [][GenNext]_<<g, pre, act, s>>

RECURSIVE SeqOf(_)
SeqOf(S) == IF S = {} THEN <<>> ELSE LET x == CHOOSE y \in S : TRUE IN <<x>> \o SeqOf(S \ {x})
GJ(x) == [st |-> x.st, fams |-> SeqOf(x.fams), llgr |-> SeqOf(x.llgr), fl |-> x.fl]
OJ(o) == [start |-> o.start, stop |-> o.stop, del |-> SeqOf(o.del), startll |-> SeqOf(o.startll),
          stopll |-> o.stopll, delll |-> SeqOf(o.delll)]
OpJ(o) == CASE o.k = "drop" -> [k |-> "drop", gr |-> SeqOf(o.gr), llgr |-> SeqOf(o.llgr)]
            [] o.k = "est"  -> [k |-> "est", gr |-> SeqOf(o.gr)]
            [] OTHER -> o
EmitEdge == \/ act.k = "init"
            \/ PrintT(ToJson([pre |-> GJ(pre), op |-> OpJ(act), post |-> GJ(g), obs |-> OJ(MStep(pre, act).out)]))
=============================================================================
