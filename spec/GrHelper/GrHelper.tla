------------------------------ MODULE GrHelper ------------------------------
(***************************************************************************)
(* C10: the graceful-restart helper for ONE peer: the pure `gr::GrState`   *)
(* machine, the driver glue that feeds it (session establishment, session  *)
(* end with its eligibility decision, End-of-RIB, the restart timer and    *)
(* the per-family LLGR timers) and the peer's routes in the RIB with their *)
(* stale / LLGR-stale marks.                                               *)
(*                                                                         *)
(* One action per driver step.  `Dev` names implementation deviations      *)
(* (DESIGN 3.6): with Dev = {} this is the intended design, each member    *)
(* switches one disjunct to what the code was found to do.                 *)
(***************************************************************************)
EXTENDS Naturals, Sequences, FiniteSets, TLC

CONSTANTS Fam,        \* families of the session (all are negotiated as address families)
          RouteIds,   \* route identifiers per family (prefix + path-id)
          Reasons,    \* session-end reason classes explored
          Comms,      \* subset of BOOLEAN: whether announcements carrying the LLGR_STALE community are explored
          Dev

VARIABLE s

\* reason classes of a session end, as the code distinguishes them
AllReasons == {"io", "remote_cease", "remote_hard_reset", "remote_noncease",
               "local_cease", "local_noncease", "hold", "admin", "admin_down_flag"}

\* Is helper mode allowed for this end of session?  (gr_on_disconnect + admin-down override)
Eligible(reason, nbit) ==
  CASE reason = "io"                -> TRUE
    [] reason = "remote_cease"      -> nbit
    [] reason = "remote_hard_reset" -> FALSE
    [] reason = "remote_noncease"   -> IF "RemoteNonCeaseEligible" \in Dev THEN nbit ELSE FALSE
    [] reason = "local_cease"       -> nbit
    [] reason = "local_noncease"    -> FALSE
    [] reason = "hold"              -> nbit
    [] reason = "admin"             -> FALSE
    [] reason = "admin_down_flag"   -> FALSE   \* ended by I/O while the peer is administratively down

\* LLGR follows GR, and additionally applies to a plain I/O loss without GR
LlgrEligible(reason, grOk) == grOk \/ reason = "io"

\* n: the route carries NO_LLGR;  c: the route carries the LLGR_STALE community as received (the peer relays a route
\* that is stale further upstream) - that is the ROUTE's business, not a mark this helper put on it
Route == [x : RouteIds, st : BOOLEAN, ll : BOOLEAN, n : BOOLEAN, c : BOOLEAN]
NoGr == [st |-> "Idle", fams |-> {}, llgr |-> {}, fl |-> FALSE]

Init ==
  s = [ gr     |-> NoGr,                      \* GrState: st, fams, llgr (params kept while restarting), from_llgr
        rt     |-> FALSE,                     \* restart timer armed
        lt     |-> {},                        \* families whose LLGR timer is armed
        sess   |-> [up |-> "down", gr |-> {}, llgr |-> {}, nbit |-> FALSE],
        routes |-> [f \in Fam |-> {}] ]

Ops ==      [k : {"connect", "fail", "timer"}]
       \cup [k : {"establish"}, gr : SUBSET Fam, llgr : SUBSET Fam, nbit : BOOLEAN]
       \cup {[k |-> "announce", f |-> f, x |-> x, n |-> n, c |-> c] : f \in Fam, x \in RouteIds, n \in BOOLEAN, c \in Comms}
       \cup [k : {"withdraw"}, f : Fam, x : RouteIds]
       \cup [k : {"eor", "llgrtimer"}, f : Fam]
       \cup [k : {"drop"}, reason : Reasons]

Enabled(st, op) ==
  CASE op.k = "connect"   -> st.sess.up = "down"
    [] op.k \in {"fail", "establish"} -> st.sess.up = "connecting"
    [] op.k \in {"announce", "withdraw", "eor", "drop"} -> st.sess.up = "up"
    [] op.k = "timer"     -> st.rt
    [] op.k = "llgrtimer" -> op.f \in st.lt
    [] OTHER -> FALSE

---------------------------------------------------------------------------
\* the pure machine: [g |-> new GrState, out |-> outputs]
\* outputs: [start, stop, del (GR-stale families to delete), startll (families), stopll, delll]
NoOut == [start |-> FALSE, stop |-> FALSE, del |-> {}, startll |-> {}, stopll |-> FALSE, delll |-> {}]
M(g, out) == [g |-> g, out |-> out]

MDropped(g, grf, llf) ==          \* grf = {} means "gr: None"; llf = {} means "llgr: None"
  IF g.st = "Llgr" THEN M(g, NoOut)
  ELSE IF grf # {} THEN M([st |-> "Restarting", fams |-> grf, llgr |-> llf, fl |-> FALSE],
                          [NoOut EXCEPT !.start = TRUE])
  ELSE IF llf # {} THEN M([st |-> "Llgr", fams |-> llf, llgr |-> {}, fl |-> FALSE],
                          [NoOut EXCEPT !.startll = llf])
  ELSE M(g, NoOut)

MEstablished(g, grf) ==
  CASE g.st = "Restarting" ->
         M(IF grf = {} THEN NoGr ELSE [st |-> "Reconnected", fams |-> grf, llgr |-> {}, fl |-> FALSE],
           [NoOut EXCEPT !.stop = TRUE, !.del = g.fams \ grf])
    [] g.st = "Llgr" ->
         IF grf = {} THEN M(NoGr, [NoOut EXCEPT !.stopll = TRUE, !.delll = g.fams])
         ELSE M([st |-> "Reconnected", fams |-> grf, llgr |-> {}, fl |-> TRUE],
                [NoOut EXCEPT !.stopll = TRUE,
                              \* LLGR-stale families the new session did not re-negotiate have
                              \* neither a timer nor an End-of-RIB to wait for: delete them now
                              !.delll = IF "LlgrReconnectKeepsOtherFamilies" \in Dev THEN {} ELSE g.fams \ grf])
    [] OTHER -> M(g, NoOut)

MEor(g, f) ==
  IF g.st = "Reconnected" THEN
    LET rest == g.fams \ {f}
        g2   == IF rest = {} THEN NoGr ELSE [g EXCEPT !.fams = rest]
    IN IF g.fl THEN M(g2, [NoOut EXCEPT !.delll = {f}]) ELSE M(g2, [NoOut EXCEPT !.del = {f}])
  ELSE M(g, NoOut)

MTimer(g) ==
  IF g.st = "Restarting" THEN
    IF g.llgr # {}
    THEN \* the machine hands only the LLGR families over (the driver deletes the GR-only ones, see Step)
         M([st |-> "Llgr", fams |-> g.llgr, llgr |-> {}, fl |-> FALSE], [NoOut EXCEPT !.startll = g.llgr])
    ELSE M(NoGr, [NoOut EXCEPT !.del = g.fams])
  ELSE M(g, NoOut)

MLlgrTimer(g, f) ==
  IF g.st = "Llgr" THEN
    LET rest == g.fams \ {f} IN
    M(IF rest = {} THEN NoGr ELSE [g EXCEPT !.fams = rest], [NoOut EXCEPT !.delll = {f}])
  ELSE M(g, NoOut)

---------------------------------------------------------------------------
\* table operations on the peer's routes
MarkStale(rs, F)   == [f \in Fam |-> IF f \in F THEN {[r EXCEPT !.st = TRUE] : r \in rs[f]} ELSE rs[f]]
DropFam(rs, F)     == [f \in Fam |-> IF f \in F THEN {} ELSE rs[f]]
DropStale(rs, F)   == [f \in Fam |-> IF f \in F THEN {r \in rs[f] : ~r.st} ELSE rs[f]]
DropLlgr(rs, F)    == [f \in Fam |-> IF f \in F THEN {r \in rs[f] : ~r.ll} ELSE rs[f]]
\* LLGR start: mark and delete NO_LLGR routes
MarkLlgr(rs, F)    == [f \in Fam |-> IF f \in F THEN {[r EXCEPT !.ll = TRUE] : r \in {q \in rs[f] : ~q.n}} ELSE rs[f]]

\* apply machine outputs to timers and routes (the driver glue)
Glue(st, m, timerDelIsFullDrop) ==
  LET o  == m.out
      r1 == IF timerDelIsFullDrop THEN DropFam(st.routes, o.del) ELSE DropStale(st.routes, o.del)
      r2 == MarkLlgr(r1, o.startll)
      r3 == DropLlgr(r2, o.delll)
  IN [st EXCEPT !.gr = m.g,
                !.rt = IF o.start THEN TRUE ELSE IF o.stop THEN FALSE ELSE @,
                !.lt = IF o.stopll THEN {} ELSE (@ \cup o.startll),
                !.routes = r3]

---------------------------------------------------------------------------
Step(st, op) ==
  CASE op.k = "connect" -> [st EXCEPT !.sess.up = "connecting"]
    [] op.k = "fail" ->
         \* a connection that never reached Established ends: nothing GR-related may change
         LET st1 == [st EXCEPT !.sess.up = "down"] IN
         IF "FailedAttemptCancelsTimer" \in Dev THEN [st1 EXCEPT !.rt = FALSE] ELSE st1
    [] op.k = "establish" ->
         LET st1 == [st EXCEPT !.sess = [up |-> "up", gr |-> op.gr, llgr |-> op.llgr, nbit |-> op.nbit],
                               !.rt = FALSE]           \* the driver cancels the restart timer first
         IN Glue(st1, MEstablished(st.gr, op.gr), FALSE)
    [] op.k = "announce" ->
         [st EXCEPT !.routes[op.f] = {r \in @ : r.x # op.x} \cup {[x |-> op.x, st |-> FALSE, ll |-> FALSE, n |-> op.n, c |-> op.c]}]
    [] op.k = "withdraw" -> [st EXCEPT !.routes[op.f] = {r \in @ : r.x # op.x}]
    [] op.k = "eor" ->
         IF st.sess.gr # {} THEN Glue(st, MEor(st.gr, op.f), FALSE) ELSE st
    [] op.k = "drop" ->
         LET grOk  == st.sess.gr # {} /\ Eligible(op.reason, st.sess.nbit)
             llOk  == st.sess.llgr # {} /\ LlgrEligible(op.reason, grOk)
             grf   == IF grOk THEN st.sess.gr ELSE {}
             llf   == IF llOk THEN st.sess.llgr ELSE {}
             \* which families keep their routes (marked stale) and which are dropped at once
             keepS == IF "StaleBeforeEligibility" \in Dev THEN st.sess.gr ELSE grf
             keepL == IF "StaleBeforeEligibility" \in Dev THEN st.sess.llgr ELSE llf
             r1    == MarkStale(DropFam(st.routes, Fam \ (keepS \cup keepL)), keepS)
             st1   == [st EXCEPT !.sess = [up |-> "down", gr |-> {}, llgr |-> {}, nbit |-> FALSE],
                                 !.routes = r1]
         IN IF grf # {} \/ llf # {}
            THEN Glue([st1 EXCEPT !.rt = FALSE], MDropped(st.gr, grf, llf), FALSE)
            ELSE \* no helper mode: every family of the session was dropped above; a restart timer
                 \* left from an earlier cycle is cancelled (the machine itself is not reset - it
                 \* holds no routes any more and the next session drop re-initialises it)
                 [st1 EXCEPT !.rt = FALSE]
    [] op.k = "timer" ->
         \* DeleteStaleRoutes on timer expiry drops the whole family (nothing fresh can exist);
         \* GR-stale families that LLGR does not take over are dropped by the driver as well
         LET grOnly == IF st.gr.st = "Restarting" /\ st.gr.llgr # {} /\ "LlgrTakeoverKeepsGrOnlyFamilies" \notin Dev
                       THEN st.gr.fams \ st.gr.llgr ELSE {}
         IN Glue([st EXCEPT !.rt = FALSE, !.routes = DropFam(@, grOnly)], MTimer(st.gr), TRUE)
    [] op.k = "llgrtimer" ->
         Glue([st EXCEPT !.lt = @ \ {op.f}], MLlgrTimer(st.gr, op.f), FALSE)

Next == \E op \in Ops : Enabled(s, op) /\ s' = Step(s, op)
Spec == Init /\ [][Next]_s

---------------------------------------------------------------------------
\* Properties (C10)

Marked(r) == r.st \/ r.ll
HasMarked(st, f) == \E r \in st.routes[f] : Marked(r)

\* core: stale routes exist only while a restart timer or LLGR timer is armed for the
\* peer or an End-of-RIB is awaited on a re-established session
StaleOnlyWhilePending ==
  \A f \in Fam : HasMarked(s, f) =>
       \/ s.rt
       \/ f \in s.lt
       \/ (s.sess.up = "up" /\ s.gr.st = "Reconnected" /\ f \in s.gr.fams)

\* timers and the machine agree
TimersMatchMachine ==
  /\ (s.rt => s.gr.st = "Restarting")
  /\ (s.gr.st = "Restarting" => s.rt)
  /\ (s.lt # {} => s.gr.st = "Llgr")
  /\ (s.gr.st = "Llgr" => s.lt = s.gr.fams)

\* NO_LLGR routes are gone once the LLGR period has started
NoLlgrRoutesGone == \A f \in Fam : \A r \in s.routes[f] : r.ll => ~r.n

StepOK(op) ==
  LET t == Step(s, op) IN
  /\ \* a failed or short-lived connection attempt never disarms a pending timer
     (op.k \in {"connect", "fail"}) => (t.rt = s.rt /\ t.lt = s.lt /\ t.routes = s.routes /\ t.gr = s.gr)
  /\ \* routes re-announced on the new session are never removed by a stale purge
     (op.k \in {"eor", "establish", "timer", "llgrtimer"} /\ s.sess.up = "up") =>
        \A f \in Fam : \A r \in s.routes[f] : ~Marked(r) => r \in t.routes[f]
  /\ \* session end: negotiated families kept and marked stale, every other family removed at once
     (op.k = "drop") =>
        LET grOk == s.sess.gr # {} /\ Eligible(op.reason, s.sess.nbit)
            llOk == s.sess.llgr # {} /\ LlgrEligible(op.reason, grOk) IN
        /\ \A f \in Fam \ ((IF grOk THEN s.sess.gr ELSE {}) \cup (IF llOk THEN s.sess.llgr ELSE {})) : t.routes[f] = {}
        /\ grOk => \A f \in s.sess.gr : /\ \A r \in t.routes[f] : r.st
                                        /\ {r.x : r \in t.routes[f]} = {r.x : r \in s.routes[f]}
        /\ \* hard reset, admin shutdown, non-Cease error: helper mode is not entered
           (op.reason \in {"remote_hard_reset", "admin", "admin_down_flag", "local_noncease", "remote_noncease"}
              /\ ~(llOk /\ ~grOk)) =>
                (~t.rt /\ t.lt = {} /\ t.gr.st \notin {"Restarting", "Llgr"} /\ \A f \in Fam : ~HasMarked(t, f))
  /\ \* expiry / End-of-RIB remove what they are responsible for
     (op.k = "timer") => \A f \in Fam : \A r \in t.routes[f] : r.st => r.ll
  /\ (op.k = "llgrtimer") => ~HasMarked(t, op.f)
  /\ (op.k = "eor" /\ s.gr.st = "Reconnected" /\ op.f \in s.gr.fams /\ s.sess.gr # {}) => ~HasMarked(t, op.f)

EveryStepOK == \A op \in Ops : Enabled(s, op) => StepOK(op)
=============================================================================
