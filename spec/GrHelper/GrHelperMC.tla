---------------------------- MODULE GrHelperMC ----------------------------
\* Transition emission for GrHelper (one TLC state per transition).
EXTENDS GrHelper, Json
VARIABLES pre, act
GenInit == Init /\ pre = s /\ act = [k |-> "init"]
GenNext == \E op \in Ops : /\ Enabled(s, op) /\ s' = Step(s, op) /\ act' = op /\ pre' = s
GenSpec == GenInit /\ [][GenNext]_<<s, pre, act>>
RECURSIVE SeqOf(_)
SeqOf(S) == IF S = {} THEN <<>> ELSE LET x == CHOOSE y \in S : TRUE IN <<x>> \o SeqOf(S \ {x})
PJ(st) == [gr |-> [st |-> st.gr.st, fams |-> SeqOf(st.gr.fams), llgr |-> SeqOf(st.gr.llgr), fl |-> st.gr.fl],
           rt |-> st.rt, lt |-> SeqOf(st.lt), sess |-> st.sess.up,
           sgr |-> SeqOf(st.sess.gr), sllgr |-> SeqOf(st.sess.llgr), nbit |-> st.sess.nbit,
           routes |-> [f \in Fam |-> SeqOf(st.routes[f])]]
OpJ(o) == IF o.k = "establish" THEN [k |-> "establish", gr |-> SeqOf(o.gr), llgr |-> SeqOf(o.llgr), nbit |-> o.nbit] ELSE o
EmitEdge == \/ act.k = "init"
            \/ PrintT(ToJson([pre |-> PJ(pre), op |-> OpJ(act), post |-> PJ(s)]))
EmitWalk == \/ act.k = "init"
            \/ PrintT(ToJson([lvl |-> TLCGet("level"), op |-> OpJ(act), post |-> PJ(s)]))
=============================================================================
