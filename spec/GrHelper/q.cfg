CONSTANTS
  Fam = {"v4", "v6"}
  RouteIds = {1}
  Comms = {FALSE}
  Reasons = {"io", "remote_cease", "remote_hard_reset", "remote_noncease", "local_cease", "local_noncease", "hold", "admin", "admin_down_flag"}
  Dev = {}
SPECIFICATION Spec
INVARIANTS StaleOnlyWhilePending TimersMatchMachine NoLlgrRoutesGone EveryStepOK
CHECK_DEADLOCK FALSE
