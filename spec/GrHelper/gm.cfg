CONSTANTS
  Fam = {"v4", "v6"}
  RouteIds = {1}
  Comms = {FALSE}
  Reasons = {"io"}
  Dev = {}
SPECIFICATION GenSpec
INVARIANT EmitEdge
CHECK_DEADLOCK FALSE
