------------------------------- MODULE RtcMC -------------------------------
EXTENDS Rtc, Json
VARIABLES pre, act
GenInit == Init /\ pre = s /\ act = [k |-> "init"]
GenNext == \E op \in Ops : Enabled(s, op) /\ s' = Step(s, op) /\ act' = op /\ pre' = s
GenSpec == GenInit /\ [][GenNext]_<<s, pre, act>>
Emit == act.k = "init" \/ PrintT(ToJson([pre |-> pre, op |-> act, post |-> s, obs |-> Out(pre, act), arg |-> ExportArg(pre, act)]))
\* the filter table, printed once from the initial state
EmitFilter == act.k # "init" \/ \A fc \in {x \in FilterCases : Cardinality(x.paths) <= 3} :
                PrintT(ToJson([filter |-> [paths |-> fc.paths, rts |-> fc.rts], allows |-> Allows(fc.paths, fc.rts)]))
=============================================================================
