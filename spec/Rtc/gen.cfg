CONSTANTS
  VpnFams = {"ipv4-vpn", "l2vpn-evpn"}
  OtherFams = {"ipv4"}
SPECIFICATION GenSpec
INVARIANTS Emit EmitFilter
CHECK_DEADLOCK FALSE
