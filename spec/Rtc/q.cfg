CONSTANTS
  VpnFams = {"ipv4-vpn", "l2vpn-evpn"}
  OtherFams = {"ipv4"}
SPECIFICATION Spec
INVARIANTS TimerIffAwaiting HeldBackNotExported SuspendedOnlyWhileAwaiting ActiveOnlyWithSession
PROPERTY ExportOnce
CHECK_DEADLOCK FALSE
