-------------------------------- MODULE Rtc --------------------------------
(***************************************************************************)
(* Beyond the listed properties (growth of the specification, DESIGN 6):   *)
(* the per-peer Route Target Constraint machine of daemon/src/rtc.rs with  *)
(* the driver's EOR timer, and the RT filter built from the peer's RTC     *)
(* routes (RFC 4684).  What a user relies on:                              *)
(*   * VPN families negotiated together with RTC are held back until the   *)
(*     peer's RTC End-of-RIB or the timer, then exported exactly once per  *)
(*     session; without RTC nothing is held back;                          *)
(*   * the timer is armed exactly while the machine awaits the EOR;        *)
(*   * a graceful-restart helper period keeps an established filter and    *)
(*     drops an unconfirmed one.                                           *)
(***************************************************************************)
EXTENDS Naturals, Sequences, FiniteSets, TLC

CONSTANTS VpnFams,      \* VPN families that can be negotiated (subset of the five is_vpn_family knows)
          OtherFams     \* non-VPN families other than RTC

VARIABLE s  \* [st, suspended, timer, sess, exported]
            \*   st        "Inactive" | "AwaitingEor" | "Active"
            \*   suspended VPN families held back
            \*   timer     the driver's EOR timer is armed
            \*   sess      "down" | "up" | "helper" (GR helper period)   - the driver's view, to generate legal input orders
            \*   exported  VPN families exported since the session came up (history, for the properties)

Fams == VpnFams \cup OtherFams \cup {"rtc"}
Init == s = [st |-> "Inactive", suspended |-> {}, timer |-> FALSE, sess |-> "down", exported |-> {}]

Ops == [k : {"established"}, fams : SUBSET Fams] \cup [k : {"eor", "timer", "dropped", "helper"}]

Enabled(st, op) ==
  CASE op.k = "established" -> st.sess \in {"down", "helper"}
    [] op.k = "eor"         -> st.sess = "up"
    [] op.k = "timer"       -> st.timer                     \* only an armed timer fires
    [] op.k = "dropped"     -> st.sess \in {"up", "helper"}
    [] op.k = "helper"      -> st.sess = "up"

\* outputs of RtcState::process, as a sequence of tags
Out(st, op) ==
  CASE op.k = "established" /\ st.st = "Inactive" /\ "rtc" \in op.fams /\ op.fams \cap VpnFams # {} -> <<"StartTimer">>
    [] op.k = "eor" /\ st.st = "AwaitingEor"     -> <<"StopTimer", "Export">>
    [] op.k = "timer" /\ st.st = "AwaitingEor"   -> <<"Export">>
    [] op.k = "dropped" /\ st.st = "AwaitingEor" -> <<"StopTimer">>
    [] op.k = "helper" /\ st.st = "AwaitingEor"  -> <<"StopTimer">>
    [] OTHER -> <<>>

Has(q, x) == \E i \in DOMAIN q : q[i] = x

Step(st, op) ==
  LET o == Out(st, op)
      st1 == CASE op.k = "established" /\ st.st = "Inactive" /\ Has(o, "StartTimer") -> "AwaitingEor"
               [] op.k \in {"eor", "timer"} /\ st.st = "AwaitingEor" -> "Active"
               [] op.k = "dropped" -> "Inactive"
               [] op.k = "helper" /\ st.st = "AwaitingEor" -> "Inactive"
               [] OTHER -> st.st
      susp == CASE Has(o, "StartTimer") -> op.fams \cap VpnFams
                [] st1 = "AwaitingEor" -> st.suspended
                [] OTHER -> {}
  IN [st |-> st1,
      suspended |-> susp,
      timer |-> IF Has(o, "StartTimer") THEN TRUE ELSE IF Has(o, "StopTimer") \/ op.k = "timer" THEN FALSE ELSE st.timer,
      sess |-> CASE op.k = "established" -> "up" [] op.k = "dropped" -> "down" [] op.k = "helper" -> "helper" [] OTHER -> st.sess,
      exported |-> IF op.k = "established" /\ st.sess = "down" THEN {}
                   ELSE IF Has(o, "Export") THEN st.exported \cup st.suspended ELSE st.exported]

\* the families the Export output names
ExportArg(st, op) == IF Has(Out(st, op), "Export") THEN st.suspended ELSE {}

Next == \E op \in Ops : Enabled(s, op) /\ s' = Step(s, op)
Spec == Init /\ [][Next]_s

TimerIffAwaiting == s.timer <=> s.st = "AwaitingEor"
HeldBackNotExported == s.st = "AwaitingEor" => s.suspended # {} /\ s.suspended \cap s.exported = {}
SuspendedOnlyWhileAwaiting == s.st # "AwaitingEor" => s.suspended = {}
ActiveOnlyWithSession == s.st = "Active" => s.sess \in {"up", "helper"}
\* every family is exported at most once per session: an Export never names a family already exported
ExportOnce == [][\A op \in Ops : (Enabled(s, op) /\ s' = Step(s, op)) => ExportArg(s, op) \cap s.exported = {}]_s

\* ---------------------------------------------------------------- RT filter (RtcFilter::from_paths / allows)
\* a path of the peer's RTC Adj-RIB-In: [stale, m] with m = "wild" | "aswild" | an exact route target
Rts == {"rt1", "rt2"}
PathKinds == [stale : BOOLEAN, m : {"wild", "aswild"} \cup Rts]
Used(paths) == IF \E p \in paths : p.stale THEN {p \in paths : p.stale} ELSE paths      \* GR reconnect: only confirmed interests
Allows(paths, routeRts) ==
  \/ \E p \in Used(paths) : p.m \in {"wild", "aswild"}
  \/ \E p \in Used(paths) : p.m \in routeRts
FilterCases == [paths : SUBSET PathKinds, rts : SUBSET Rts]
=============================================================================
