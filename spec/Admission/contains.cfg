CONSTANTS W = 4
SPECIFICATION Spec
INVARIANTS Sane Emit
CHECK_DEADLOCK FALSE
