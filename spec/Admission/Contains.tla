------------------------------ MODULE Contains ------------------------------
(***************************************************************************)
(* C16: "lies inside a configured dynamic-neighbour prefix".  W-bit model  *)
(* of prefix containment; a configured prefix may carry host bits (it is   *)
(* taken from the configuration / API as written).  Function-style; the    *)
(* harness embeds every case at several bit offsets of IPv4 and IPv6       *)
(* addresses so that every alignment of the prefix end inside a byte       *)
(* occurs.                                                                 *)
(***************************************************************************)
EXTENDS Naturals, TLC
CONSTANT W
VARIABLE c
RECURSIVE Pow2(_)
Pow2(n) == IF n = 0 THEN 1 ELSE 2 * Pow2(n - 1)
Cases == [len : 0..W, net : 0..(Pow2(W) - 1), addr : 0..(Pow2(W) - 1)]
\* the first `len` bits agree
Inside(x) == (x.net \div Pow2(W - x.len)) = (x.addr \div Pow2(W - x.len))
Init == c \in Cases
Next == UNCHANGED c
Spec == Init /\ [][Next]_c
Sane == (c.len = 0 => Inside(c)) /\ (c.len = W => (Inside(c) <=> c.net = c.addr))
=============================================================================
