------------------------------- MODULE Params -------------------------------
(***************************************************************************)
(* C16 (session set-up): the parameters a new session must run with, as a  *)
(* function of how its neighbour is configured (statically, or through the *)
(* peer group of a dynamic-neighbour prefix).  Function-style table.       *)
(***************************************************************************)
EXTENDS Naturals, TLC
VARIABLE c

LocalAs == 65001
ConfedId == 64512
Members == {65001, 65002}
RouterId == "1.0.0.1"

Cases == [kind : {"static", "dynamic"}, rel : {"ebgp", "ibgp", "member"}, rs : BOOLEAN, rr : BOOLEAN,
          cluster : BOOLEAN, confed : BOOLEAN, hold : {0, 30}]      \* hold 0: not configured
Meaningful(x) == (x.rel = "member" => x.confed) /\ (x.cluster => x.rr)

RemoteAs(x) == CASE x.rel = "ebgp" -> 65010 [] x.rel = "ibgp" -> LocalAs [] x.rel = "member" -> 65002

Role(x) ==
  IF x.rs THEN "RsClient"
  ELSE IF RemoteAs(x) = LocalAs THEN (IF x.rr THEN "IbgpRrClient" ELSE "Ibgp")
  ELSE IF x.confed /\ RemoteAs(x) \in Members THEN "ConfedEbgp"
  ELSE "Ebgp"

Expected(x) ==
  [role    |-> Role(x),
   \* outside the confederation the speaker shows the confederation identifier (RFC 5065)
   openAs  |-> IF x.confed /\ RemoteAs(x) \notin Members THEN ConfedId ELSE LocalAs,
   hold    |-> IF x.hold = 0 THEN 180 ELSE x.hold,
   cluster |-> IF Role(x) \in {"Ibgp", "IbgpRrClient"} THEN (IF x.cluster THEN "9.9.9.9" ELSE RouterId) ELSE "none",
   limit   |-> IF x.kind = "static" THEN 10 ELSE 0,           \* a peer group carries no prefix limit
   confedId |-> IF x.confed THEN ConfedId ELSE 0]

Init == c \in {x \in Cases : Meaningful(x)}
Next == UNCHANGED c
Spec == Init /\ [][Next]_c
Sane == Expected(c).role \in {"RsClient", "Ibgp", "IbgpRrClient", "ConfedEbgp", "Ebgp"}
        /\ (Expected(c).cluster # "none" <=> RemoteAs(c) = LocalAs /\ ~c.rs)
=============================================================================
