CONSTANTS
  Addrs = {"s", "d", "u"}
  DynAddrs = {"d"}
  MaxSess = 4
  MaxGen = 3
  Dev = {}
SPECIFICATION Spec
INVARIANTS TypeOK OnePerDirection LiveIsAdmitted DynamicHasConnection
CHECK_DEADLOCK FALSE
