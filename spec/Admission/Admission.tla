------------------------------ MODULE Admission ------------------------------
(***************************************************************************)
(* C16 (admission half): which TCP connections become BGP sessions, and    *)
(* what the end of a session does to the neighbour table.                  *)
(*                                                                         *)
(* One action per critical section of the implementation:                  *)
(*   connect(a, dir)   accept_connection under the global write lock       *)
(*   reset / disable / enable / delete / add   the API calls (force_down   *)
(*                     only SIGNALS the session tasks and frees the slots) *)
(*   rclose(id)        the remote end closes the socket                    *)
(*   end(id)           the tail of PeerSession::run for a session that was *)
(*                     told to close - a SEPARATE step, so every API call  *)
(*                     and every new connection can fall between the       *)
(*                     signal and the tail                                  *)
(*                                                                         *)
(* A neighbour entry has a generation (the identity of its PeerContext);   *)
(* delete + add, or a dynamic neighbour that goes and comes back, is a new *)
(* generation.  The tail of a session may only touch what belongs to its   *)
(* own generation, and a slot stays taken until the tail of the session    *)
(* that holds it; `Dev` names the two deviations found                     *)
(* in the implementation (now repaired) so that TLC can show the           *)
(* invariants are not vacuous.                                             *)
(***************************************************************************)
EXTENDS Naturals, Sequences, FiniteSets, TLC

CONSTANTS Addrs,        \* remote addresses
          DynAddrs,     \* those inside a configured dynamic-neighbour prefix
          MaxSess, MaxGen, Dev

VARIABLE s

Dirs == {"A", "P"}
NoPeer == [ex |-> FALSE, dyn |-> FALSE, down |-> FALSE, gen |-> 0]
NoSess == [st |-> "none", a |-> CHOOSE a \in Addrs : TRUE, dir |-> "P", gen |-> 0]

Init == s = [peer |-> [a \in Addrs |-> NoPeer],
             ctx  |-> [g \in 1..MaxGen |-> [A |-> 0, P |-> 0]],
             sess |-> [i \in 1..MaxSess |-> NoSess],
             nsess |-> 0, ngen |-> 0]

Ops ==      [op : {"connect"}, a : Addrs, dir : Dirs]
       \cup [op : {"reset", "disable", "enable", "delete", "add"}, a : Addrs]
       \cup [op : {"rclose", "end"}, id : 1..MaxSess]

Closing(st) == {i \in 1..MaxSess : st.sess[i].st = "closing"}
Live(st)    == {i \in 1..MaxSess : st.sess[i].st = "live"}

\* force_down: every session holding a slot of generation g is told to close.  The slot stays taken until the
\* session's own tail releases it (deviation ForceDownFreesSlot: the slots are free at once)
ForceDown(st, g) ==
  LET hit == {st.ctx[g].A, st.ctx[g].P} \ {0} IN
  [st EXCEPT !.ctx[g] = IF "ForceDownFreesSlot" \in Dev THEN [A |-> 0, P |-> 0] ELSE st.ctx[g],
             !.sess = [i \in 1..MaxSess |-> IF i \in hit /\ st.sess[i].st = "live"
                                            THEN [st.sess[i] EXCEPT !.st = "closing"] ELSE st.sess[i]]]

NewPeer(st, a, dyn) ==
  [st EXCEPT !.ngen = st.ngen + 1,
             !.peer[a] = [ex |-> TRUE, dyn |-> dyn, down |-> FALSE, gen |-> st.ngen + 1]]

Accept(st, a, dir) ==
  LET id == st.nsess + 1 g == st.peer[a].gen IN
  [st EXCEPT !.nsess = id, !.ctx[g][dir] = id,
             !.sess[id] = [st |-> "live", a |-> a, dir |-> dir, gen |-> g]]

Res(st, r) == [st |-> st, res |-> r]

Step(st, o) ==
  CASE o.op = "connect" ->
         IF st.peer[o.a].ex
         THEN IF st.peer[o.a].down THEN Res(st, "rejected")
              ELSE IF st.ctx[st.peer[o.a].gen][o.dir] # 0 THEN Res(st, "rejected")
              ELSE Res(Accept(st, o.a, o.dir), "accepted")
         ELSE IF o.a \in DynAddrs THEN Res(Accept(NewPeer(st, o.a, TRUE), o.a, o.dir), "accepted")
         ELSE Res(st, "rejected")
    [] o.op = "reset"   -> IF st.peer[o.a].ex THEN Res(ForceDown(st, st.peer[o.a].gen), "ok") ELSE Res(st, "err")
    [] o.op = "disable" -> IF ~st.peer[o.a].ex THEN Res(st, "err")
                           ELSE IF st.peer[o.a].down THEN Res(st, "ok")
                           ELSE Res([ForceDown(st, st.peer[o.a].gen) EXCEPT !.peer[o.a].down = TRUE], "ok")
    [] o.op = "enable"  -> IF ~st.peer[o.a].ex THEN Res(st, "err") ELSE Res([st EXCEPT !.peer[o.a].down = FALSE], "ok")
    [] o.op = "delete"  -> IF ~st.peer[o.a].ex THEN Res(st, "err")
                           ELSE Res([ForceDown(st, st.peer[o.a].gen) EXCEPT !.peer[o.a] = NoPeer], "ok")
    [] o.op = "add"     -> IF st.peer[o.a].ex THEN Res(st, "err") ELSE Res(NewPeer(st, o.a, FALSE), "ok")
    [] o.op = "rclose"  -> Res([st EXCEPT !.sess[o.id].st = "closing"], "ok")
    [] o.op = "end" ->
         LET x == st.sess[o.id]
             \* the tail releases the slot of its direction (its own: nobody else can have taken it meanwhile)
             st1 == [st EXCEPT !.sess[o.id].st = "ended", !.ctx[x.gen][x.dir] = 0]
             nosess == st1.ctx[x.gen].A = 0 /\ st1.ctx[x.gen].P = 0
             \* the neighbour entry is touched only if it is the one this session belonged to
             same == st1.peer[x.a].ex /\ (st1.peer[x.a].gen = x.gen \/ "EndIgnoresGeneration" \in Dev)
         IN Res(IF same /\ nosess /\ st1.peer[x.a].dyn THEN [st1 EXCEPT !.peer[x.a] = NoPeer] ELSE st1, "ok")

Enabled(st, o) ==
  CASE o.op = "connect" -> st.nsess < MaxSess /\ (st.peer[o.a].ex \/ o.a \notin DynAddrs \/ st.ngen < MaxGen)
    [] o.op = "add"     -> st.ngen < MaxGen \/ st.peer[o.a].ex
    [] o.op = "rclose"  -> st.sess[o.id].st = "live"
    [] o.op = "end"     -> st.sess[o.id].st = "closing"
    [] OTHER -> TRUE

Next == \E o \in Ops : Enabled(s, o) /\ s' = Step(s, o).st
Spec == Init /\ [][Next]_s

\* ---- the property -------------------------------------------------------------
\* a session that nobody told to close is the only one of its neighbour and direction
OnePerDirection ==
  \A i, j \in Live(s) : s.sess[i].a = s.sess[j].a /\ s.sess[i].dir = s.sess[j].dir => i = j
\* every session that has not finished its tail holds its slot
SlotHeld ==
  \A i \in Live(s) \cup Closing(s) : s.ctx[s.sess[i].gen][s.sess[i].dir] = i
\* ... its neighbour entry exists (same generation) and is administratively up
LiveIsAdmitted ==
  \A i \in Live(s) : LET x == s.sess[i] IN
     /\ s.ctx[x.gen][x.dir] = i
     /\ s.peer[x.a].ex /\ s.peer[x.a].gen = x.gen /\ ~s.peer[x.a].down
\* a dynamic neighbour exists only while one of its connections does
DynamicHasConnection ==
  \A a \in Addrs : s.peer[a].ex /\ s.peer[a].dyn =>
     \E i \in 1..MaxSess : s.sess[i].st \in {"live", "closing"} /\ s.sess[i].a = a /\ s.sess[i].gen = s.peer[a].gen
TypeOK ==
  /\ s.nsess \in 0..MaxSess /\ s.ngen \in 0..MaxGen
  /\ \A a \in Addrs : s.peer[a].ex => s.peer[a].gen \in 1..s.ngen
=============================================================================
