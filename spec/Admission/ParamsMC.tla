------------------------------ MODULE ParamsMC ------------------------------
EXTENDS Params, Json
Emit == PrintT(ToJson([case |-> c, remote |-> RemoteAs(c), exp |-> Expected(c)]))
=============================================================================
