---------------------------- MODULE AdmissionMC ----------------------------
EXTENDS Admission, Json

VARIABLES pre, act

RECURSIVE SeqOf(_)
SeqOf(Q) == IF Q = {} THEN <<>> ELSE LET x == CHOOSE y \in Q : TRUE IN <<x>> \o SeqOf(Q \ {x})

OJ(o) == CASE o.op = "connect" -> [op |-> "connect", a |-> o.a, dir |-> o.dir, id |-> 0]
           [] o.op \in {"rclose", "end"} -> [op |-> o.op, a |-> "-", dir |-> "-", id |-> o.id]
           [] o.op = "init" -> [op |-> "init", a |-> "-", dir |-> "-", id |-> 0]
           [] OTHER -> [op |-> o.op, a |-> o.a, dir |-> "-", id |-> 0]

\* what the harness can observe
PJ(st) == [peers |-> SeqOf({[a |-> a, dyn |-> st.peer[a].dyn, down |-> st.peer[a].down,
                             A |-> st.ctx[st.peer[a].gen].A # 0, P |-> st.ctx[st.peer[a].gen].P # 0]
                            : a \in {x \in Addrs : st.peer[x].ex}}),
           nsess |-> st.nsess, closing |-> Cardinality(Closing(st))]

\* the replay harness cannot order the tails of two sessions that were told to close: at most one closes at a time
WouldClose(st, o) ==
  CASE o.op \in {"reset", "disable", "delete"} ->
         IF ~st.peer[o.a].ex \/ (o.op = "disable" /\ st.peer[o.a].down) THEN 0
         ELSE Cardinality({i \in Live(st) : i \in {st.ctx[st.peer[o.a].gen].A, st.ctx[st.peer[o.a].gen].P}})
    [] o.op = "rclose" -> 1
    [] OTHER -> 0
Replayable(st, o) == Cardinality(Closing(st)) + WouldClose(st, o) <= 1

GenInit == Init /\ pre = s /\ act = [op |-> "init"]
GenNext == \E o \in Ops : /\ Enabled(s, o) /\ Replayable(s, o)
                          /\ pre' = s /\ act' = o /\ s' = Step(s, o).st
GenSpec == GenInit /\ [][GenNext]_<<s, pre, act>>

EmitWalk == \/ act.op = "init"
            \/ PrintT(ToJson([lvl |-> TLCGet("level"), op |-> OJ(act), res |-> Step(pre, act).res, post |-> PJ(s)]))
=============================================================================
