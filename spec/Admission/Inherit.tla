------------------------------ MODULE Inherit ------------------------------
(***************************************************************************)
(* C16 (session set-up): what a statically configured neighbour that       *)
(* belongs to a peer group runs with - every parameter it does not set      *)
(* itself is inherited from the group, every parameter it sets itself is   *)
(* its own - and what its OPEN therefore advertises.  Function-style: the  *)
(* finite table  (which fields the neighbour sets) x (which fields the     *)
(* group sets).                                                            *)
(***************************************************************************)
EXTENDS Naturals, FiniteSets, TLC
VARIABLE c

Fields == {"as", "hold", "fam", "gr", "llgr", "rs", "rr"}
Cases == [own : SUBSET Fields, grp : SUBSET Fields]

\* the value a field ends up with: "own", "grp" or "default"
From(x, f) == IF f \in x.own THEN "own" ELSE IF f \in x.grp THEN "grp" ELSE "default"

Expected(x) ==
  [as   |-> From(x, "as"),
   hold |-> From(x, "hold"),
   \* address families and the add-path send-max travel together: the group's apply only if the neighbour lists none
   fam  |-> From(x, "fam"),
   gr   |-> From(x, "gr"),
   llgr |-> From(x, "llgr"),
   \* flags are on if either side sets them
   rs   |-> "rs" \in x.own \cup x.grp,
   rr   |-> "rr" \in x.own \cup x.grp,
   \* what the OPEN advertises follows from the effective values
   capGr   |-> From(x, "gr") # "default",
   capLlgr |-> From(x, "llgr") # "default"]

Init == c \in Cases
Next == UNCHANGED c
Spec == Init /\ [][Next]_c
Sane == /\ (Expected(c).capGr <=> "gr" \in c.own \cup c.grp)
        /\ (c.own = {} /\ c.grp = {} => Expected(c).as = "default")
=============================================================================
