----------------------------- MODULE ContainsMC -----------------------------
EXTENDS Contains, Json
Emit == PrintT(ToJson([len |-> c.len, net |-> c.net, addr |-> c.addr, inside |-> Inside(c)]))
=============================================================================
