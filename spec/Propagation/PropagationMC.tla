--------------------------- MODULE PropagationMC ---------------------------
EXTENDS Propagation, Json
RECURSIVE SeqOf(_)
SeqOf(S) == IF S = {} THEN <<>> ELSE LET x == CHOOSE y \in S : TRUE IN <<x>> \o SeqOf(S \ {x})
CJ(x) == [src |-> x.src, dst |-> x.dst, confed |-> x.confed, asp |-> x.asp, has |-> SeqOf(x.has), llgr |-> x.llgr, same |-> x.same, pol |-> x.pol]
EJ(e) == IF ~e.sent THEN [sent |-> FALSE]
         ELSE [sent |-> TRUE, asp |-> e.asp, first |-> e.first, absent |-> SeqOf(e.absent), present |-> SeqOf(e.present),
               nexthop |-> e.nexthop, oid |-> e.oid, cl |-> e.cl, medval |-> e.medval, comm |-> e.comm]
EmitInbound == PrintT(ToJson([inbound |-> SeqOf({[case |-> x, installed |-> Installed(x)] : x \in {y \in InCases : InMeaningful(y)}})]))
Emit == PrintT(ToJson([case |-> CJ(c), exp |-> EJ(Expected(c)), common |-> ExpectedCommon(c)]))
=============================================================================
