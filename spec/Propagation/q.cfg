SPECIFICATION Spec
INVARIANTS Consistent
CHECK_DEADLOCK FALSE
