---------------------------- MODULE Propagation ----------------------------
(***************************************************************************)
(* C09: where a route may be propagated and how its attributes are         *)
(* rewritten for the receiver.  A function-style specification (no         *)
(* behaviour over time): the finite case matrix                            *)
(*   source kind x receiver role x confederation x AS_PATH shape x         *)
(*   attribute presence x LLGR-stale x same-peer                           *)
(* and, per case, `Expected`: what the statement of C09 requires.  TLC     *)
(* enumerates the matrix (one "state" per case), checks the internal       *)
(* consistency of Expected and prints every case for the replay on the     *)
(* real `process_nlri_change`.                                             *)
(*                                                                         *)
(* Fields the statement leaves open are "any" and are not compared.        *)
(***************************************************************************)
EXTENDS Naturals, Sequences, FiniteSets, TLC

CONSTANTS HasSets,    \* the attribute-presence vectors explored (SUBSET Attrs in the thorough tier)
          PolHasSets  \* the vectors for which the export-policy dimension is explored as well

VARIABLE c     \* the current case

SrcKinds == {"local", "kernel", "ebgp", "ibgp", "ibgpc", "rs", "confed"}      \* ibgpc: route-reflector client
\* originated by this speaker: through the API ("local") or redistributed from the kernel's routing table ("kernel").
\* Neither was learned from a BGP peer, so neither is "reflected", and no MED was "received".
Originated(k) == k \in {"local", "kernel"}
DstRoles == {"Ebgp", "Ibgp", "IbgpRrClient", "RsClient", "ConfedEbgp"}
AspShapes == {"absent", "empty", "seq2", "seq255", "set2", "cseq2_seq2", "cseq2"}   \* absent: no AS_PATH attribute at all
Attrs == {"LP", "MED", "OID", "CL", "AIGP", "UT", "UN"}   \* UT/UN: unknown optional transitive / non-transitive

\* export policy of the receiving neighbour: none, or one statement that always applies and sets the next hop, sets the
\* MED, or replaces the communities (the last one only to see that it cannot take LLGR_STALE off a stale route)
Pols == {"none", "nexthop", "med", "comm"}

Cases == [src : SrcKinds, dst : DstRoles, confed : BOOLEAN, asp : AspShapes,
          has : HasSets, llgr : BOOLEAN, same : BOOLEAN, pol : Pols]

\* a case is meaningful when ...
Meaningful(x) ==
  /\ (Originated(x.src) => ~x.same /\ ~x.llgr)                \* locally originated: no peer, never stale
  /\ (x.src = "confed" \/ x.dst = "ConfedEbgp" => x.confed)    \* confed roles need a confederation
  /\ (x.same => ~Originated(x.src))
  /\ (x.asp = "absent" => Originated(x.src))                   \* a learned route without AS_PATH never gets this far (C05)
  /\ (x.pol # "none" => x.has \in PolHasSets)

IbgpLearned(k) == k \in {"ibgp", "ibgpc"}
IbgpDst(r)     == r \in {"Ibgp", "IbgpRrClient"}

\* --- never propagated -----------------------------------------------------
Suppressed(x) ==
  \/ x.same                                                      \* back to the peer it was learned from
  \/ (x.src = "ibgp" /\ x.dst = "Ibgp")                          \* non-client iBGP -> non-client iBGP
  \/ ((x.src = "rs") # (x.dst = "RsClient"))                     \* across the route-server boundary

\* --- AS_PATH rewriting ----------------------------------------------------
\* shapes as sequences of [t, n]
Shape(a) ==
  CASE a = "empty"      -> <<>>
    [] a = "absent"     -> <<>>
    [] a = "seq2"       -> << [t |-> "SEQ", n |-> 2] >>
    [] a = "seq255"     -> << [t |-> "SEQ", n |-> 255] >>
    [] a = "set2"       -> << [t |-> "SET", n |-> 2] >>
    [] a = "cseq2_seq2" -> << [t |-> "CSEQ", n |-> 2], [t |-> "SEQ", n |-> 2] >>
    [] a = "cseq2"      -> << [t |-> "CSEQ", n |-> 2] >>

StripConfed(q) == SelectSeq(q, LAMBDA sgm : sgm.t \notin {"CSEQ", "CSET"})
Prepend(q, t) ==
  IF q # <<>> /\ Head(q).t = t /\ Head(q).n < 255
  THEN << [t |-> t, n |-> Head(q).n + 1] >> \o Tail(q)
  ELSE << [t |-> t, n |-> 1] >> \o q

RECURSIVE Hops(_)
Hops(q) == IF q = <<>> THEN 0 ELSE Head(q).n + Hops(Tail(q))

\* the AS that must be first in the path sent to an eBGP peer
FirstAs(x) == IF x.confed THEN "confed_id" ELSE "local_as"

Rewritten(x) ==
  CASE x.dst = "Ebgp" ->
         [sent   |-> TRUE,
          asp    |-> Prepend(StripConfed(Shape(x.asp)), "SEQ"),
          first  |-> FirstAs(x),
          \* LOCAL_PREF / ORIGINATOR_ID / CLUSTER_LIST / AIGP removed; a received MED removed
          absent |-> {"LP", "OID", "CL", "AIGP"} \cup (IF ~Originated(x.src) THEN {"MED"} ELSE {}) \cup {"UN"},
          present |-> (IF "UT" \in x.has THEN {"UT"} ELSE {}),
          nexthop |-> IF ~Originated(x.src) THEN "self" ELSE "any",
          oid    |-> "any", cl |-> "any"]
    [] IbgpDst(x.dst) ->
         [sent   |-> TRUE,
          asp    |-> Shape(x.asp),               \* path untouched
          first  |-> "any",
          absent |-> {"UN"},
          present |-> {"LP"} \cup (x.has \ {"UN", "OID", "CL"})
                      \cup (IF IbgpLearned(x.src) THEN {"OID", "CL"} ELSE {}),
          nexthop |-> IF ~Originated(x.src) THEN "orig" ELSE "any",
          \* reflected routes gain ORIGINATOR_ID (kept if already there) and the cluster-id in front
          oid    |-> IF IbgpLearned(x.src) THEN (IF "OID" \in x.has THEN "orig" ELSE "src_rid")
                     ELSE (IF "OID" \in x.has THEN "orig" ELSE "none"),
          cl     |-> IF IbgpLearned(x.src) THEN "prepended" ELSE (IF "CL" \in x.has THEN "orig" ELSE "none")]
    [] x.dst = "ConfedEbgp" ->
         [sent   |-> TRUE,
          asp    |-> Prepend(Shape(x.asp), "CSEQ"),     \* member AS in a confed segment
          first  |-> "local_as",
          absent |-> {"UN"},
          present |-> (x.has \cap {"LP", "UT"}),
          nexthop |-> "any", oid |-> "any", cl |-> "any"]
    [] x.dst = "RsClient" ->
         \* route-server transparency: only the opaque-attribute rule is asserted
         [sent   |-> TRUE, asp |-> "any", first |-> "any",
          absent |-> {"UN"}, present |-> (IF "UT" \in x.has THEN {"UT"} ELSE {}),
          nexthop |-> "any", oid |-> "any", cl |-> "any"]

\* the receiver's defaults come first, the export policy's next-hop / MED actions are applied to the result and are what
\* is sent ("policy"); medval / comm "any" = not constrained
Expected(x) ==
  IF Suppressed(x) THEN [sent |-> FALSE]
  ELSE
    LET e == Rewritten(x) IN
    [sent |-> TRUE, asp |-> e.asp, first |-> e.first, oid |-> e.oid, cl |-> e.cl,
     absent  |-> IF x.pol = "med" THEN e.absent \ {"MED"} ELSE e.absent,
     present |-> IF x.pol = "med" THEN e.present \cup {"MED"} ELSE e.present,
     nexthop |-> IF x.pol = "nexthop" THEN "policy" ELSE e.nexthop,
     medval  |-> IF x.pol = "med" THEN "policy" ELSE "any",
     comm    |-> IF x.pol = "comm" THEN "policy" ELSE "any"]

\* common to every sent route
ExpectedCommon(x) ==
  [ utPartial |-> "UT" \in x.has,            \* unknown transitive forwarded with Partial set
    llgrStale |-> x.llgr ]                   \* LLGR-stale routes carry LLGR_STALE

---------------------------------------------------------------------------
\* Inbound: a route that has already passed through this speaker is never installed
InPeers == {"ebgp", "rs", "ibgp", "confed"}     \* rs: a route-server client - an EXTERNAL peer like ebgp
ExternalPeer(k) == k \in {"ebgp", "rs"}
InLoops == {"none", "aspath_local_as", "aspath_confed_id", "cseq_local_as", "cset_local_as",
            "originator_local", "originator_other", "cluster_local", "cluster_other"}
InCases == [peer : InPeers, confed : BOOLEAN, loop : InLoops]
InMeaningful(x) == /\ (x.peer = "confed" => x.confed)
                   /\ (x.loop = "aspath_confed_id" => x.confed)
                   \* the local member AS inside a confederation segment (only seen on sessions inside the confederation)
                   /\ (x.loop \in {"cseq_local_as", "cset_local_as"} => x.confed /\ x.peer \in {"confed", "ibgp"})
                   \* towards a peer outside the confederation the local AS *is* the confederation id; the member-AS
                   \* number is invisible outside, so the same number in an external path is another AS: left open
                   /\ ~(ExternalPeer(x.peer) /\ x.confed /\ x.loop = "aspath_local_as")
                   \* the cluster-id is configured per iBGP session in this implementation; which cluster-id is
                   \* "local" on a confederation-eBGP session is not defined by the statement: left open
                   /\ ~(x.peer = "confed" /\ x.loop = "cluster_local")
Installed(x) == x.loop \notin {"aspath_local_as", "aspath_confed_id", "cseq_local_as", "cset_local_as"}
                /\ ~(~ExternalPeer(x.peer) /\ x.loop \in {"originator_local", "cluster_local"})
\* (ORIGINATOR_ID / CLUSTER_LIST are iBGP attributes: from an external peer they are dropped, not believed - C05)

Init == c \in {x \in Cases : Meaningful(x)}
Next == UNCHANGED c
Spec == Init /\ [][Next]_c

---------------------------------------------------------------------------
\* internal consistency of the table
Consistent ==
  LET e == Expected(c) IN
  e.sent =>
    /\ e.absent \cap e.present = {}
    /\ (c.dst = "Ebgp" =>
          /\ e.asp # <<>> /\ Head(e.asp).t = "SEQ"
          /\ \A i \in 1..Len(e.asp) : e.asp[i].t \notin {"CSEQ", "CSET"}
          \* prepended exactly once: one more hop than the non-confed part of the input
          /\ Hops(e.asp) = Hops(StripConfed(Shape(c.asp))) + 1)
    /\ (IbgpDst(c.dst) => "LP" \in e.present)
=============================================================================
