---------------------------- MODULE PolicyStore ----------------------------
(***************************************************************************)
(* C14 (store half): the policy objects - defined sets, statements,        *)
(* policies, the global import assignment - and every add / replace /      *)
(* delete call on them.  Users hold COPIES of what they reference (a       *)
(* statement holds the sets it names, a policy the statements, the         *)
(* assignment the policies - exactly the Arc clones of the implementation),*)
(* so "cannot be deleted or silently changed underneath its users" is the  *)
(* invariant NoDivergence: every held copy equals the object of that name  *)
(* in the store.  The store keeps it by refusing calls on referenced       *)
(* objects; `Dev` names deliberate deviations used to show the invariant   *)
(* is not vacuous.                                                         *)
(*                                                                         *)
(* One action per API call (PolicyTable::add_defined_set, ... ,            *)
(* set_policy_assignment); Step is deterministic and returns the required  *)
(* result class ("ok" | "err") next to the new state.  Eval gives the      *)
(* outcome of the live assignment for a probe route (abstracted to the set *)
(* of elements it matches).                                                *)
(***************************************************************************)
EXTENDS Naturals, Sequences, FiniteSets, TLC

CONSTANTS Kinds, SetNames, StmtNames, PolNames, Elems, MaxLen, Dev

VARIABLE s

SetKeys == [k : Kinds, n : SetNames]
NoSet   == [ex |-> FALSE, el |-> {}]
NoStmt  == [ex |-> FALSE, conds |-> {}, snap |-> <<>>, disp |-> "none"]
NoPol   == [ex |-> FALSE, st |-> <<>>]
NoAsg   == [ex |-> FALSE, def |-> "accept", pl |-> <<>>]

Init == s = [sets |-> [key \in SetKeys |-> NoSet], stmts |-> [n \in StmtNames |-> NoStmt],
             pols |-> [p \in PolNames |-> NoPol], asg |-> NoAsg]

\* ---- the operations ---------------------------------------------------------
NonEmpty(S) == SUBSET S \ {{}}
OneKindEach(C) == \A a, b \in C : a.k = b.k => a = b
SeqsUpTo(S, n) == UNION {[1..i -> S] : i \in 1..n}
Ops ==
       [op : {"addset", "replset"}, k : Kinds, n : SetNames, el : NonEmpty(Elems)]
  \cup [op : {"delset"}, k : Kinds, n : SetNames, all : {TRUE}, el : {{}}]
  \cup [op : {"delset"}, k : Kinds, n : SetNames, all : {FALSE}, el : NonEmpty(Elems)]
  \cup {[op |-> "addstmt", n |-> n, conds |-> c, disp |-> d] :
          n \in StmtNames, c \in {x \in SUBSET SetKeys : OneKindEach(x)}, d \in {"none", "accept", "reject"}}
  \cup [op : {"delstmt"}, n : StmtNames, all : {TRUE}, kinds : {{}}, disp : {FALSE}]
  \cup [op : {"delstmt"}, n : StmtNames, all : {FALSE}, kinds : SUBSET Kinds, disp : BOOLEAN]
  \cup [op : {"addpol"}, n : PolNames, st : SeqsUpTo(StmtNames, 2)]
  \cup [op : {"delpol"}, n : PolNames, all : {TRUE}, preserve : BOOLEAN, st : {{}}]
  \cup [op : {"delpol"}, n : PolNames, all : {FALSE}, preserve : BOOLEAN, st : NonEmpty(StmtNames)]
  \cup [op : {"addasg", "setasg"}, pl : SeqsUpTo(PolNames, 2), def : {"accept", "reject"}]
  \cup [op : {"delasg"}, all : {TRUE}, pl : {{}}]
  \cup [op : {"delasg"}, all : {FALSE}, pl : NonEmpty(PolNames)]

\* ---- references --------------------------------------------------------------
Range(q) == {q[i] : i \in 1..Len(q)}
SetInUse(st, key)  == \E n \in StmtNames : st.stmts[n].ex /\ key \in st.stmts[n].conds
StmtInUse(st, n)   == \E p \in PolNames : st.pols[p].ex /\ \E x \in Range(st.pols[p].st) : x.name = n
PolInUse(st, p)    == st.asg.ex /\ \E x \in Range(st.asg.pl) : x.name = p

\* the copy a policy takes of a statement, and the assignment of a policy
StmtCopy(st, n) == [name |-> n, conds |-> st.stmts[n].conds, snap |-> st.stmts[n].snap, disp |-> st.stmts[n].disp]
PolCopy(st, p)  == [name |-> p, st |-> st.pols[p].st]

Ok(st)  == [st |-> st, res |-> "ok"]
Err(st) == [st |-> st, res |-> "err"]

\* statements of `names` that no policy of st uses any more are dropped from the store
DropUnused(st, names) ==
  [st EXCEPT !.stmts = [n \in StmtNames |-> IF n \in names /\ ~StmtInUse(st, n) THEN NoStmt ELSE st.stmts[n]]]

Step(st, o) ==
  CASE o.op = "addset" ->
         LET key == [k |-> o.k, n |-> o.n] cur == st.sets[key] IN
         IF ~cur.ex THEN Ok([st EXCEPT !.sets[key] = [ex |-> TRUE, el |-> o.el]])
         ELSE IF SetInUse(st, key) /\ "addset_ignores_use" \notin Dev THEN Err(st)
         ELSE Ok([st EXCEPT !.sets[key].el = cur.el \cup o.el])
    [] o.op = "replset" ->
         LET key == [k |-> o.k, n |-> o.n] IN
         IF SetInUse(st, key) /\ "replset_ignores_use" \notin Dev THEN Err(st)
         ELSE Ok([st EXCEPT !.sets[key] = [ex |-> TRUE, el |-> o.el]])
    [] o.op = "delset" ->
         LET key == [k |-> o.k, n |-> o.n] cur == st.sets[key] IN
         IF SetInUse(st, key) /\ "delset_ignores_use" \notin Dev THEN Err(st)
         ELSE IF ~cur.ex THEN Err(st)
         ELSE IF o.all THEN Ok([st EXCEPT !.sets[key] = NoSet])
         ELSE Ok([st EXCEPT !.sets[key].el = cur.el \ o.el])
    [] o.op = "addstmt" ->
         LET cur == st.stmts[o.n] IN
         IF \E key \in o.conds : ~st.sets[key].ex THEN Err(st)
         ELSE IF ~cur.ex
              THEN Ok([st EXCEPT !.stmts[o.n] = [ex |-> TRUE, conds |-> o.conds,
                                                 snap |-> [key \in o.conds |-> st.sets[key].el], disp |-> o.disp]])
         ELSE IF StmtInUse(st, o.n) /\ "addstmt_ignores_use" \notin Dev THEN Err(st)
         ELSE IF \E a \in o.conds, b \in cur.conds : a.k = b.k THEN Err(st)
         ELSE IF o.disp # "none" /\ cur.disp # "none" THEN Err(st)
         ELSE Ok([st EXCEPT !.stmts[o.n] =
                    [ex |-> TRUE, conds |-> cur.conds \cup o.conds,
                     snap |-> [key \in cur.conds \cup o.conds |-> IF key \in cur.conds THEN cur.snap[key] ELSE st.sets[key].el],
                     disp |-> IF o.disp # "none" THEN o.disp ELSE cur.disp]])
    [] o.op = "delstmt" ->
         LET cur == st.stmts[o.n] IN
         IF StmtInUse(st, o.n) /\ "delstmt_ignores_use" \notin Dev THEN Err(st)
         ELSE IF ~cur.ex THEN Err(st)
         ELSE IF o.all THEN Ok([st EXCEPT !.stmts[o.n] = NoStmt])
         ELSE IF \E k \in o.kinds : ~\E c \in cur.conds : c.k = k THEN Err(st)
         ELSE IF o.disp /\ cur.disp = "none" THEN Err(st)
         ELSE LET keep == {c \in cur.conds : c.k \notin o.kinds} IN
              Ok([st EXCEPT !.stmts[o.n] = [ex |-> TRUE, conds |-> keep, snap |-> [key \in keep |-> cur.snap[key]],
                                            disp |-> IF o.disp THEN "none" ELSE cur.disp]])
    [] o.op = "addpol" ->
         LET cur == st.pols[o.n]
             add == [i \in 1..Len(o.st) |-> StmtCopy(st, o.st[i])] IN
         IF \E x \in Range(o.st) : ~st.stmts[x].ex THEN Err(st)
         ELSE IF ~cur.ex THEN Ok([st EXCEPT !.pols[o.n] = [ex |-> TRUE, st |-> add]])
         ELSE IF PolInUse(st, o.n) /\ "addpol_ignores_use" \notin Dev THEN Err(st)
         ELSE Ok([st EXCEPT !.pols[o.n].st = cur.st \o add])
    [] o.op = "delpol" ->
         LET cur == st.pols[o.n] IN
         IF PolInUse(st, o.n) /\ "delpol_ignores_use" \notin Dev THEN Err(st)
         ELSE IF ~cur.ex THEN Err(st)
         ELSE IF o.all
              THEN LET st1 == [st EXCEPT !.pols[o.n] = NoPol] IN
                   Ok(IF o.preserve THEN st1 ELSE DropUnused(st1, {x.name : x \in Range(cur.st)}))
         ELSE LET st1 == [st EXCEPT !.pols[o.n].st = SelectSeq(cur.st, LAMBDA x : x.name \notin o.st)]
                  gone == {x.name : x \in Range(cur.st)} \cap o.st IN
              Ok(IF o.preserve THEN st1 ELSE DropUnused(st1, gone))
    [] o.op = "addasg" ->
         LET add == [i \in 1..Len(o.pl) |-> PolCopy(st, o.pl[i])] IN
         IF \E p \in Range(o.pl) : ~st.pols[p].ex THEN Err(st)
         ELSE IF st.asg.ex /\ \E x \in Range(st.asg.pl) : x.name \in Range(o.pl) THEN Err(st)
         ELSE Ok([st EXCEPT !.asg = [ex |-> TRUE, def |-> o.def, pl |-> add \o (IF st.asg.ex THEN st.asg.pl ELSE <<>>)]])
    [] o.op = "setasg" ->
         IF \E p \in Range(o.pl) : ~st.pols[p].ex THEN Err(st)
         ELSE Ok([st EXCEPT !.asg = [ex |-> TRUE, def |-> o.def, pl |-> [i \in 1..Len(o.pl) |-> PolCopy(st, o.pl[i])]]])
    [] o.op = "delasg" ->
         IF o.all THEN Ok([st EXCEPT !.asg = NoAsg])
         ELSE IF ~st.asg.ex THEN Err(st)
         ELSE Ok([st EXCEPT !.asg.pl = SelectSeq(st.asg.pl, LAMBDA x : x.name \notin o.pl)])

\* bounds for the model: lists never grow past MaxLen
Fits(st, o) ==
  CASE o.op = "addpol" -> Len(st.pols[o.n].st) + Len(o.st) <= MaxLen
    [] o.op = "addasg" -> Len(st.asg.pl) + Len(o.pl) <= MaxLen
    [] OTHER -> TRUE

Next == \E o \in Ops : Fits(s, o) /\ s' = Step(s, o).st
Spec == Init /\ [][Next]_s

\* ---- evaluation of the live assignment for a probe route matching elements F ----
StmtHolds(x, F) == \A key \in x.conds : x.snap[key] \cap F # {}
RECURSIVE RunSt(_, _)
RunSt(q, F) == IF q = <<>> THEN "pass"
               ELSE IF StmtHolds(Head(q), F) /\ Head(q).disp # "none" THEN Head(q).disp ELSE RunSt(Tail(q), F)
RECURSIVE RunPl(_, _)
RunPl(q, F) == IF q = <<>> THEN "pass"
               ELSE LET d == RunSt(Head(q).st, F) IN IF d # "pass" THEN d ELSE RunPl(Tail(q), F)
Eval(st, F) == IF ~st.asg.ex THEN "none"
               ELSE LET d == RunPl(st.asg.pl, F) IN IF d = "pass" THEN st.asg.def ELSE d

\* the same through the definitions currently in the store (what the operator sees when listing them)
RECURSIVE RunStNow(_, _, _)
RunStNow(st, q, F) ==
  IF q = <<>> THEN "pass"
  ELSE LET x == st.stmts[Head(q).name] IN
       IF x.ex /\ (\A key \in x.conds : st.sets[key].ex /\ st.sets[key].el \cap F # {}) /\ x.disp # "none" THEN x.disp
       ELSE RunStNow(st, Tail(q), F)

\* ---- the property -------------------------------------------------------------
NoDivergence ==
  /\ \A n \in StmtNames : s.stmts[n].ex =>
        \A key \in s.stmts[n].conds : s.sets[key].ex /\ s.stmts[n].snap[key] = s.sets[key].el
  /\ \A p \in PolNames : s.pols[p].ex =>
        \A x \in Range(s.pols[p].st) : s.stmts[x.name].ex /\ x = StmtCopy(s, x.name)
  /\ s.asg.ex => \A x \in Range(s.asg.pl) : s.pols[x.name].ex /\ x = PolCopy(s, x.name)

TypeOK ==
  /\ \A key \in SetKeys : s.sets[key].el \subseteq Elems /\ (~s.sets[key].ex => s.sets[key].el = {})
  /\ \A n \in StmtNames : OneKindEach(s.stmts[n].conds) /\ DOMAIN s.stmts[n].snap = s.stmts[n].conds
  /\ \A p \in PolNames : Len(s.pols[p].st) <= MaxLen
  /\ Len(s.asg.pl) <= MaxLen
=============================================================================
