CONSTANTS
  Kinds = {"community"}
  SetNames = {"a"}
  StmtNames = {"s1", "s2"}
  PolNames = {"p1", "p2"}
  Elems = {1, 2}
  MaxLen = 2
  Dev = {}
SPECIFICATION Spec
INVARIANTS TypeOK NoDivergence
CHECK_DEADLOCK FALSE
