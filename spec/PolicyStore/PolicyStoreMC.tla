-------------------------- MODULE PolicyStoreMC --------------------------
EXTENDS PolicyStore, Json

VARIABLES pre, act

RECURSIVE SeqOf(_)
SeqOf(Q) == IF Q = {} THEN <<>> ELSE LET x == CHOOSE y \in Q : TRUE IN <<x>> \o SeqOf(Q \ {x})

Probes == SUBSET Elems

OJ(o) ==
  CASE o.op \in {"addset", "replset"} -> [op |-> o.op, k |-> o.k, n |-> o.n, el |-> SeqOf(o.el)]
    [] o.op = "delset"  -> [op |-> o.op, k |-> o.k, n |-> o.n, all |-> o.all, el |-> SeqOf(o.el)]
    [] o.op = "addstmt" -> [op |-> o.op, n |-> o.n, conds |-> SeqOf(o.conds), disp |-> o.disp]
    [] o.op = "delstmt" -> [op |-> o.op, n |-> o.n, all |-> o.all, kinds |-> SeqOf(o.kinds), disp |-> o.disp]
    [] o.op = "addpol"  -> [op |-> o.op, n |-> o.n, st |-> o.st]
    [] o.op = "delpol"  -> [op |-> o.op, n |-> o.n, all |-> o.all, preserve |-> o.preserve, st |-> SeqOf(o.st)]
    [] o.op \in {"addasg", "setasg"} -> [op |-> o.op, pl |-> o.pl, def |-> o.def]
    [] o.op = "delasg"  -> [op |-> o.op, all |-> o.all, pl |-> SeqOf(o.pl)]
    [] o.op = "init"    -> [op |-> "init"]

\* what the harness can observe of the store after the call
PJ(st) ==
  [sets  |-> SeqOf({[k |-> key.k, n |-> key.n, el |-> SeqOf(st.sets[key].el)] : key \in {x \in SetKeys : st.sets[x].ex}}),
   stmts |-> SeqOf({[n |-> n, conds |-> SeqOf(st.stmts[n].conds), disp |-> st.stmts[n].disp] : n \in {x \in StmtNames : st.stmts[x].ex}}),
   pols  |-> SeqOf({[n |-> p, st |-> [i \in 1..Len(st.pols[p].st) |-> st.pols[p].st[i].name]] : p \in {x \in PolNames : st.pols[x].ex}}),
   asg   |-> IF st.asg.ex THEN [ex |-> TRUE, def |-> st.asg.def, pl |-> [i \in 1..Len(st.asg.pl) |-> st.asg.pl[i].name]]
             ELSE [ex |-> FALSE, def |-> "accept", pl |-> <<>>],
   eval  |-> [F \in Probes |-> Eval(st, F)]]

EvalJ(st) == SeqOf({[f |-> SeqOf(F), d |-> Eval(st, F)] : F \in Probes})

GenInit == Init /\ pre = s /\ act = [op |-> "init"]
GenNext == \E o \in Ops : /\ Fits(s, o)
                          /\ pre' = s /\ act' = o /\ s' = Step(s, o).st
GenSpec == GenInit /\ [][GenNext]_<<s, pre, act>>

EmitWalk == \/ act.op = "init"
            \/ PrintT(ToJson([lvl |-> TLCGet("level"), op |-> OJ(act), res |-> Step(pre, act).res,
                              post |-> [sets |-> PJ(s).sets, stmts |-> PJ(s).stmts, pols |-> PJ(s).pols, asg |-> PJ(s).asg,
                                        eval |-> EvalJ(s)]]))
=============================================================================
