CONSTANTS
  Fam = {"v4", "v6"}
  PfxSeq <- cPfxSeq
  Pids = {0, 1}
  NoLimit = 999
  OtherPfx = {"x2"}
  Max <- cMaxC
SPECIFICATION GenSpec
INVARIANTS EmitEdge
CHECK_DEADLOCK FALSE
