---------------------------- MODULE SLDesign ----------------------------
\* constants of the checked configurations
EXTENDS SessionLimit
cPfxSeq == <<"x1", "x2", "x3">>
cMaxA == [f \in Fam |-> IF f = "v4" THEN 2 ELSE 1]
cMaxB == [f \in Fam |-> IF f = "v4" THEN 1 ELSE NoLimit]
cMaxC == [f \in Fam |-> IF f = "v4" THEN 0 ELSE 2]
=============================================================================
