-------------------------- MODULE SessionLimitMC --------------------------
EXTENDS SLDesign, Json, TLC
VARIABLES pre, act
GenInit == Init /\ pre = s /\ act = [k |-> "init"]
GenNext == \E op \in Ops : /\ Enabled(s, op) /\ s' = Step(s, op) /\ act' = op /\ pre' = s
GenSpec == GenInit /\ [][GenNext]_<<s, pre, act>>
RECURSIVE SeqOf(_)
SeqOf(S) == IF S = {} THEN <<>> ELSE LET x == CHOOSE y \in S : TRUE IN <<x>> \o SeqOf(S \ {x})
PJ(st) == [held |-> [f \in Fam |-> SeqOf(st.held[f])], other |-> [f \in Fam |-> SeqOf(st.other[f])], over |-> st.over,
           cnt |-> [f \in Fam |-> IF Max[f] = NoLimit THEN NoLimit ELSE Count(st, f)]]
EmitEdge == IF act.k = "init" THEN TRUE ELSE PrintT(ToJson([pre |-> PJ(pre), op |-> act, post |-> PJ(s)]))
=============================================================================
