CONSTANTS
  Fam = {"v4", "v6"}
  PfxSeq <- cPfxSeq
  Pids = {0, 1}
  NoLimit = 999
  OtherPfx = {"x1", "x2", "x3"}
  Max <- cMaxC
SPECIFICATION Spec
INVARIANTS TypeOK WithinLimit
PROPERTIES PerFamily OtherInert ReplacementOK
CHECK_DEADLOCK FALSE
