--------------------------- MODULE SessionLimit ---------------------------
(* C15, session half: the prefix-limit counters of ONE session (daemon/src/event/mod.rs PeerSession.prefix_counters,
   created in PeerSession::new from PeerConfig.prefix_limits, handed to the table by rx_update).

   The table half (Rib.tla: CountersOK) treats "the session's limit counter" as one number per peer, because
   table::Table::insert receives it as an argument.  Which counter is passed for which family, and that a family's
   counter is only ever touched by routes of that family, is session code; this module is its specification.

   One action per rx_update call (one UPDATE: reach or unreach of ONE family, one or several NLRIs), plus the
   environment action of another, unlimited peer announcing / withdrawing the same prefixes (so that the destination
   exists, is shared, and outlives the session's own paths). *)
EXTENDS Naturals, FiniteSets, Sequences

CONSTANTS Fam,       \* families the session negotiated
          PfxSeq,    \* prefixes per family, as the sequence in which a multi-NLRI UPDATE lists them
          Pids,      \* ADD-PATH path identifiers the session uses
          Max,       \* [Fam -> Nat]: configured maximum; NoLimit = the family has no limit (and no counter)
          NoLimit,
          OtherPfx   \* prefixes the other (unlimited) peer may announce

Pfx == {PfxSeq[i] : i \in 1..Len(PfxSeq)}

VARIABLE s
\* held[f]: (prefix, path id) pairs the session currently has in the RIB; other[f]: prefixes the other peer announces;
\* over: the limit was signalled (rx_update returned true: the caller sends CEASE/1 and the session ends)
TypeOK == /\ s.held \in [Fam -> SUBSET (Pfx \X Pids)]
          /\ s.other \in [Fam -> SUBSET Pfx]
          /\ s.over \in BOOLEAN

Init == s = [held |-> [f \in Fam |-> {}], other |-> [f \in Fam |-> {}], over |-> FALSE]

Prefixes(h) == {x[1] : x \in h}
\* what the counter of family f must read
Count(st, f) == Cardinality(Prefixes(st.held[f]))

Ops == [k : {"ann", "wd"}, f : Fam, p : Pfx, i : Pids]
       \cup [k : {"annall"}, f : Fam, i : Pids]
       \cup [k : {"oann", "owd"}, f : Fam, p : OtherPfx]

\* one NLRI of a reach UPDATE: refused iff the session gains a prefix while the family's counter is at its maximum
Gains(h, p) == p \notin Prefixes(h)
Refused(h, f, p) == Max[f] # NoLimit /\ Gains(h, p) /\ Cardinality(Prefixes(h)) >= Max[f]

\* a reach UPDATE listing prefixes q (in order) with path id i: insertion stops at the first refused NLRI
RECURSIVE Reach(_, _, _, _)
Reach(h, f, q, i) ==
    IF q = <<>> THEN [held |-> h, over |-> FALSE]
    ELSE IF Refused(h, f, Head(q)) THEN [held |-> h, over |-> TRUE]
    ELSE Reach(h \cup {<<Head(q), i>>}, f, Tail(q), i)

Enabled(st, op) == ~st.over

Step(st, op) ==
    CASE op.k = "ann" ->
           LET r == Reach(st.held[op.f], op.f, <<op.p>>, op.i)
           IN  [st EXCEPT !.held[op.f] = r.held, !.over = r.over]
      [] op.k = "annall" ->
           LET r == Reach(st.held[op.f], op.f, PfxSeq, op.i)
           IN  [st EXCEPT !.held[op.f] = r.held, !.over = r.over]
      [] op.k = "wd" -> [st EXCEPT !.held[op.f] = @ \ {<<op.p, op.i>>}]
      [] op.k = "oann" -> [st EXCEPT !.other[op.f] = @ \cup {op.p}]
      [] op.k = "owd" -> [st EXCEPT !.other[op.f] = @ \ {op.p}]

Next == \E op \in Ops : Enabled(s, op) /\ s' = Step(s, op)
Spec == Init /\ [][Next]_s

\* ---- properties of the design ----
\* a family's distinct accepted prefixes never exceed its maximum without the limit being signalled
WithinLimit == \A f \in Fam : Max[f] # NoLimit => Count(s, f) <= Max[f]
\* one family's routes never move another family's counter
PerFamily == [][\A op \in Ops : (Enabled(s, op) /\ s' = Step(s, op)) =>
                   \A g \in Fam \ {op.f} : Count(s', g) = Count(s, g)]_s
\* the other peer's routes never move any counter, and never cause a refusal
OtherInert == [][\A op \in Ops : (op.k \in {"oann", "owd"} /\ Enabled(s, op) /\ s' = Step(s, op)) =>
                   (\A g \in Fam : Count(s', g) = Count(s, g)) /\ ~s'.over]_s
\* replacements and further ADD-PATH paths of a held prefix are accepted at the limit
ReplacementOK == [][\A op \in Ops : (op.k = "ann" /\ Enabled(s, op) /\ s' = Step(s, op)
                                      /\ op.p \in Prefixes(s.held[op.f])) => ~s'.over]_s
=============================================================================
