--------------------------- MODULE MonitorRecordTrace ---------------------------
(* Validates what the independent reader found in the bytes the real code wrote (one JSON record per case:
   {"case": <the case TLC printed>, "obs": <observation>}) against MonitorRecord!Reason. *)
EXTENDS MonitorRecord, Json, IOUtils, TLCExt

Rec == ndJsonDeserialize(IOEnv.TRACE)
VARIABLE l
Why(i) == Reason(Rec[i].case, Rec[i].obs)
TInit == l = 1 /\ c = Rec[1].case
TNext == /\ l <= Len(Rec)
         /\ (IF Why(l) = "" THEN TRUE ELSE PrintT(ToJson([rejected |-> l, why |-> Why(l)])))
         /\ l' = l + 1
         /\ c' = IF l + 1 <= Len(Rec) THEN Rec[l + 1].case ELSE c
TSpec == TInit /\ [][TNext]_<<l, c>>
Accepted ==
  LET n == TLCGet("stats").diameter IN
  IF n = Len(Rec) + 1 THEN TRUE ELSE PrintT(<<"STUCK", n>>) /\ FALSE
=============================================================================
