---------------------------- MODULE MonitorRecord ----------------------------
(***************************************************************************)
(* C19: what a BMP message (RFC 7854 / 8671 / 9069) or an MRT record       *)
(* (RFC 6396 / 8050) emitted for a monitored event has to look like.       *)
(* Function-style: the finite universe of monitored events (Cases) and,    *)
(* per event, the structural fields an independent reader must find        *)
(* (BmpType, FlagV, ...), plus the verdict Reason(ev, obs) on what it found *)
(* in the bytes the real code produced.  MonitorRecordMC prints the cases, *)
(* MonitorRecordTrace validates the observations.                          *)
(*                                                                         *)
(* obs = [outcome, nrec, lenok, type, peertype, v, l, o, addrok, minpdus,   *)
(*        maxpdus, leftover, parse, content, subtype, afi, aswidth,        *)
(*        idxok, countok]                                                  *)
(*   outcome  "ok" | "panic" | "error" (the encoder refused)                *)
(*   nrec     number of BMP messages / MRT records written                  *)
(*   lenok    every common header's length = the bytes of that record       *)
(*   type     BMP message type / MRT type of every record (-1 if mixed)     *)
(*   v, l, o  per-peer header flags of every record (BMP)                   *)
(*   addrok   the address fields agree with the V flag / the AFI field      *)
(*   min/maxpdus  BGP PDUs found inside one record                          *)
(*   leftover bytes of a record that are not part of a well-framed PDU      *)
(*   parse    the embedded PDUs go through the repository's parser with    *)
(*            the add-path setting the record states ("ok" | "error")       *)
(*   content  decoded prefixes / attributes / next hop vs. the monitored    *)
(*            event ("same" | "diff")                                       *)
(*   stateless the bytes equal those of a long-lived codec (one per BMP     *)
(*            session / MRT file) that has just encoded a message of the   *)
(*            same family with the opposite add-path setting               *)
(***************************************************************************)
EXTENDS Naturals, Sequences, FiniteSets, TLC

Families == {"ipv4", "ipv6", "ipv4-vpn", "l2vpn-evpn", "ipv4-flowspec"}
Views    == {"pre", "post", "out_pre", "out_post", "locrib"}
Counts   == {"one", "few", "many", "huge"}     \* many: more NLRI than fit one 4096-octet frame; huge: more than fit a 65535-octet one
Afs      == {"v4", "v6"}
Nhs      == {"v4", "v6", "v6ll"}               \* v6ll: the 32-octet IPv6 next hop (global + link-local address)
AttrSz   == {"small", "big", "over"}           \* big: an attribute block close to the 4096-octet frame limit on its own;
                                               \* over: beyond it (received over a session with extended messages, RFC 8654)

R(k, view, peer, local, fam, addpath, dir, count, nh, attrs, x) ==
  [k |-> k, view |-> view, peer |-> peer, local |-> local, fam |-> fam, addpath |-> addpath, dir |-> dir, count |-> count,
   nh |-> nh, attrs |-> attrs, x |-> x]

\* ---------------------------------------------------------------- events
BmpRm ==
  {R("rm", vw, p, p, f, ap, d, c, nh, a, "") :
     vw \in Views, p \in Afs, f \in Families, ap \in BOOLEAN, d \in {"reach", "unreach", "eor"}, c \in Counts, nh \in Nhs, a \in AttrSz}
BmpPeerUp   == {R("peerup", "pre", p, l, "ipv4", FALSE, "", "", "", "", x) : p \in Afs, l \in Afs, x \in {"nocaps", "caps", "locrib", "caps253", "caps254", "caps255", "caps256"}}
\* capsN: an OPEN whose capabilities take exactly N octets; with the two octets of the parameter header, 253 is the most that the
\* one-octet Optional Parameters Length can express (RFC 4271 4.2) - a larger OPEN may be refused, never written with a wrapped length
BmpPeerDown == {R("peerdown", "pre", p, p, "ipv4", FALSE, "", "", "", "", x) :
                  p \in Afs, x \in {"localnotif", "localfsm", "remotenotif", "remoteunexpected", "deconfigured"}}
BmpInit     == {R("initiation", "pre", "v4", "v4", "ipv4", FALSE, "", "", "", "", x) : x \in {"two", "none", "long"}}
MrtMp ==
  {R("mrt", "pre", p, p, f, ap, d, c, nh, a, "") :          \* a session runs over one socket: both addresses of one family
     p \in Afs, f \in Families, ap \in BOOLEAN, d \in {"reach", "unreach"}, c \in Counts, nh \in Nhs, a \in AttrSz}
TableDump ==
  {R("td", "pre", p, p, f, FALSE, "reach", c, nh, a, x) :
     p \in Afs, f \in {"ipv4", "ipv6"}, c \in {"one", "few"}, nh \in Afs \cup {"none"}, a \in {"small", "big"}, x \in {"peers1", "peers3", "peersmixed", "localsrc"}}
\* nh = "none": paths without a next hop (a route originated through the API may have none): the entry is written without one

Meaningful(e) ==
  /\ (e.k \in {"rm", "mrt"} /\ e.dir # "reach" => e.nh = "v4" /\ e.attrs = "small")
  /\ (e.k \in {"rm", "mrt"} /\ e.dir = "eor" => e.count = "one")
  /\ (e.k = "rm" /\ e.view = "locrib" => e.peer = "v4" /\ ~e.addpath /\ e.count = "one")       \* one best path per event
  /\ (e.k = "rm" /\ e.view \in {"out_pre", "out_post"} => e.count = "one")                    \* one NLRI per Adj-RIB-Out event
  /\ (e.k \in {"rm", "mrt"} /\ e.fam \in {"ipv4-vpn", "l2vpn-evpn", "ipv4-flowspec"} => e.count \in {"one", "few"} /\ e.attrs = "small")
  /\ (e.k \in {"rm", "mrt"} /\ e.fam = "ipv4-flowspec" => e.nh = "v4")
  /\ (e.k \in {"rm", "mrt"} /\ e.fam = "ipv6" => e.nh \in {"v6", "v6ll"})
  /\ (e.k \in {"rm", "mrt"} /\ e.nh = "v6ll" => e.fam \in {"ipv4", "ipv6"} /\ e.count \in {"one", "few"})
  /\ (e.k \in {"rm", "mrt"} /\ e.count = "huge" => e.attrs = "small" /\ e.fam = "ipv4")
  /\ (e.k \in {"rm", "mrt"} /\ e.attrs = "over" => e.count = "one" /\ e.fam \in {"ipv4", "ipv6"})
Cases == {e \in BmpRm \cup BmpPeerUp \cup BmpPeerDown \cup BmpInit \cup MrtMp : Meaningful(e)}
         \cup {e \in TableDump : (e.fam = "ipv6" => e.nh \in {"v6", "none"})}

\* ---------------------------------------------------------------- expectations
BmpType(e) == CASE e.k = "rm" -> 0 [] e.k = "peerdown" -> 2 [] e.k = "peerup" -> 3 [] e.k = "initiation" -> 4 [] OTHER -> 99
PeerType(e) == IF (e.k = "rm" /\ e.view = "locrib") \/ (e.k = "peerup" /\ e.x = "locrib") THEN 3 ELSE 0
FlagV(e) == e.peer = "v6" /\ PeerType(e) = 0
FlagL(e) == e.k = "rm" /\ e.view \in {"post", "out_post"}
FlagO(e) == e.k = "rm" /\ e.view \in {"out_pre", "out_post"}
MrtSubtype(e) ==
  CASE e.k = "mrt" -> IF e.addpath THEN 9 ELSE 4                     \* BGP4MP_MESSAGE_AS4_ADDPATH (RFC 8050) / BGP4MP_MESSAGE_AS4
    [] e.k = "td"  -> IF e.fam = "ipv4" THEN 2 ELSE 4                  \* RIB_IPV4_UNICAST / RIB_IPV6_UNICAST
    [] OTHER -> 0
\* no other monitored event of this universe may be refused: each of them is expressible in its format
MayRefuse(e) == e.k = "peerup" /\ e.x \in {"caps254", "caps255", "caps256"}

\* ---------------------------------------------------------------- verdict
Reason(e, o) ==
  IF o.outcome = "panic" THEN "the encoder panics"
  ELSE IF o.outcome = "error" THEN (IF MayRefuse(e) THEN "" ELSE "the monitored event is not reported")
  ELSE IF o.nrec < 1 THEN "nothing is written"
  ELSE IF ~o.lenok THEN "a common header length differs from the bytes that follow"
  ELSE IF e.k \in {"rm", "peerup", "peerdown", "initiation"} /\ o.type # BmpType(e) THEN "wrong BMP message type"
  ELSE IF e.k \in {"rm", "peerup", "peerdown"} /\ o.peertype # PeerType(e) THEN "wrong peer type"
  ELSE IF e.k \in {"rm", "peerup", "peerdown"} /\ (o.v # FlagV(e) \/ ~o.addrok) THEN "V flag and peer address disagree"
  ELSE IF e.k = "rm" /\ (o.l # FlagL(e) \/ o.o # FlagO(e)) THEN "L / O flag does not state the monitored view"
  ELSE IF e.k = "mrt" /\ o.type # 16 THEN "wrong MRT type"
  ELSE IF e.k = "td" /\ o.type # 13 THEN "wrong MRT type"
  ELSE IF e.k \in {"mrt", "td"} /\ o.subtype # MrtSubtype(e) THEN "MRT subtype does not state the AS width / add-path setting / family"
  ELSE IF e.k = "mrt" /\ (~o.addrok \/ o.aswidth # 4) THEN "BGP4MP header addresses / AS numbers disagree with its AFI / subtype"
  ELSE IF e.k \in {"rm", "mrt"} /\ (o.minpdus # 1 \/ o.maxpdus # 1 \/ o.leftover) THEN "a record does not hold exactly one BGP message"
  ELSE IF e.k = "peerup" /\ (o.minpdus # 2 \/ o.maxpdus # 2 \/ o.leftover) THEN "Peer Up does not hold exactly the two OPEN messages"
  ELSE IF e.k \in {"rm", "mrt", "peerup", "td"} /\ o.parse # "ok" THEN "an embedded BGP message does not parse"
  ELSE IF e.k = "td" /\ (~o.idxok \/ ~o.countok) THEN "TABLE_DUMP_V2 peer index / entry count inconsistent"
  ELSE IF o.content # "same" THEN "the record does not carry the monitored data"
  ELSE IF e.k \in {"rm", "mrt"} /\ ~o.stateless THEN "the encoding depends on what the same codec encoded before (add-path state carried over)"
  ELSE ""

VARIABLE c
Init == c \in Cases
Next == UNCHANGED c
Spec == Init /\ [][Next]_c
\* internal consistency of the table
Sane == /\ (FlagO(c) => c.k = "rm")
        /\ (PeerType(c) = 3 => ~FlagV(c))
        /\ (c.k = "mrt" => MrtSubtype(c) \in {4, 9})
=============================================================================
