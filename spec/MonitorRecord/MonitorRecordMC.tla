---------------------------- MODULE MonitorRecordMC ----------------------------
EXTENDS MonitorRecord, Json
Emit == PrintT(ToJson([case |-> c]))
=============================================================================
