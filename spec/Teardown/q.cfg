SPECIFICATION Spec
INVARIANTS Sane Emit
CHECK_DEADLOCK FALSE
