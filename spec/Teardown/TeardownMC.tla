----------------------------- MODULE TeardownMC -----------------------------
EXTENDS Teardown, Json
Emit == PrintT(ToJson([case |-> c, exp |-> [freed |-> Expected(c).freed, reconnect |-> Expected(c).reconnect,
                                            code |-> Expected(c).notif[1], sub |-> Expected(c).notif[2]]]))
=============================================================================
