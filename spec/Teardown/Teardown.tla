------------------------------ MODULE Teardown ------------------------------
(***************************************************************************)
(* C07, driver half.  PeerFsm.tla says what the pure machine does with an  *)
(* input; this table says what must be true of a REAL connection           *)
(* (PeerSession::run over a socket, ConnArbiter, apply_disconnect) after    *)
(* each way it can end, in each state it can end in:                        *)
(*   - the connection's slot in the peer's arbiter is free again (Idle),    *)
(*   - a new attempt in the same direction is accepted and gets an OPEN,    *)
(*   - a message that is not allowed in the current state is answered by an *)
(*     FSM-error NOTIFICATION (code 5) whose subcode names that state.      *)
(* Function-style (DESIGN 3.2): TLC enumerates the cases, checks the        *)
(* table's internal consistency and prints every case for the replay.       *)
(***************************************************************************)
EXTENDS Naturals, TLC

VARIABLE c

States == {"OpenSent", "OpenConfirm", "Established"}
Roles  == {"Passive", "Active"}

\* how the connection ends
Causes == { "eof",            \* the peer closes the socket
            "notification",   \* the peer sends a NOTIFICATION (Cease)
            \* an OPEN the codec or the machine refuses
            "open_hold1", "open_hold2", "open_id0", "open_badas", "open_version",
            \* broken framing
            "bad_marker", "bad_type", "short_length",
            \* well-formed messages that are not allowed in the state
            "update", "keepalive", "open", "refresh" }

OpenErrors  == {"open_hold1", "open_hold2", "open_id0", "open_badas", "open_version"}
FrameErrors == {"bad_marker", "bad_type", "short_length"}

Cases == [st : States, cause : Causes, role : Roles]

\* which message is "not allowed in the current state" (RFC 4271 8.2.2)
NotAllowed(x) ==
  \/ x.st = "OpenSent"    /\ x.cause \in {"update", "keepalive", "refresh"}
  \/ x.st = "OpenConfirm" /\ x.cause \in {"update", "open", "refresh"}
  \/ x.st = "Established" /\ x.cause = "open"

Meaningful(x) ==
  /\ (x.cause \in OpenErrors => x.st = "OpenSent")         \* the OPEN under test is the first one
  /\ (x.cause \in {"update", "keepalive", "open", "refresh"} => NotAllowed(x))

\* "carrying that state": the statement fixes no numbering; this is the numbering PeerFsm.tla uses (Idle = 0 ... Established
\* = 5), which is what the pure machine emits.  (RFC 6608 numbers the three subcodes 1, 2, 3 - see DESIGN, C07.)
StateCode(st) == CASE st = "OpenSent" -> 3 [] st = "OpenConfirm" -> 4 [] st = "Established" -> 5

\* notif: <<code, subcode>> the daemon must put on the wire before closing; <<0, 0>> = the statement does not say
Expected(x) ==
  [ freed     |-> TRUE,
    reconnect |-> TRUE,
    notif     |-> IF NotAllowed(x) THEN << 5, StateCode(x.st) >> ELSE << 0, 0 >> ]

Init == c \in {x \in Cases : Meaningful(x)}
Next == UNCHANGED c
Spec == Init /\ [][Next]_c

Sane == LET e == Expected(c) IN
        /\ e.freed /\ e.reconnect
        /\ (e.notif[1] = 5 => e.notif[2] \in 3..5)
        /\ (c.cause \in {"eof", "notification"} => e.notif = << 0, 0 >>)
=============================================================================
