------------------------------ MODULE RovMC ------------------------------
\* Emits every reachable VRP set once with the expected validation state of every route.
EXTENDS Rov, Json
RECURSIVE SeqOf(_)
SeqOf(S) == IF S = {} THEN <<>> ELSE LET x == CHOOSE y \in S : TRUE IN <<x>> \o SeqOf(S \ {x})
Code(x) == CASE x = "NotFound" -> "N" [] x = "Valid" -> "V" [] x = "Invalid" -> "I"
RouteSeq == SeqOf(Routes)
RECURSIVE Cat(_)
Cat(q) == IF q = <<>> THEN "" ELSE Head(q) \o Cat(Tail(q))
EmitState == PrintT(ToJson([vrps |-> SeqOf(s), exp |-> [i \in 1..Len(RouteSeq) |-> Code(State(s, RouteSeq[i]))]]))
EmitRoutes == s # {} \/ PrintT(ToJson([routes |-> RouteSeq]))
=============================================================================
