CONSTANTS
  W = 3
  Caches = {"k1", "k2"}
  Asns = {0, 1, 2}
  Origins = {1, 2, 99}
  MaxVrps = 2
SPECIFICATION Spec
INVARIANTS OnlyCoveringMatters StatesConsistent As0NeverValid DropSourceOK
CHECK_DEADLOCK FALSE
