-------------------------------- MODULE Rov --------------------------------
(***************************************************************************)
(* C12: RPKI route-origin validation (RFC 6811) over a W-bit address space *)
(* and the VRP table as a set keyed by (cache, prefix, max-length, AS)     *)
(* with insert / remove / drop-source / reset.                             *)
(*                                                                         *)
(* A prefix is [len, val]: `val` is the integer formed by its `len`        *)
(* leading bits.  The harness embeds the W-bit space at several bit        *)
(* offsets of IPv4 and IPv6 so lengths fall on and off byte boundaries.    *)
(***************************************************************************)
EXTENDS Naturals, Sequences, FiniteSets, TLC

CONSTANTS W,          \* address width in bits
          Caches,     \* RTR caches (sources)
          Asns,       \* AS numbers appearing in VRPs (may contain 0 = AS0)
          Origins,    \* route origins explored: AS numbers and the path-form codes below
          MaxVrps     \* bound on the table size

VARIABLE s            \* the table: a set of VRPs

\* origin codes that are not plain AS numbers (the harness builds the AS_PATH of each code):
\*   99  AS_SEQUENCE [x] then an AS_SET as the final segment                    -> RFC 6811 "NONE"
\*   98  AS_SEQUENCE [x, AS 1] then an AS_SET as the final segment              -> NONE (the sequence before the set does not count)
\*    5  an AS_SET in front, AS_SEQUENCE [AS 1] as the final segment            -> AS 1
NoneOs == {98, 99}
IsNone(o) == o \in NoneOs
AsOf(o) == IF o = 5 THEN 1 ELSE o

Pow2(n) == IF n = 0 THEN 1 ELSE IF n = 1 THEN 2 ELSE IF n = 2 THEN 4 ELSE IF n = 3 THEN 8 ELSE 16

Prefixes == UNION {{[len |-> l, val |-> v] : v \in 0..(Pow2(l) - 1)} : l \in 0..W}

\* a covers b
Covers(a, b) == a.len <= b.len /\ (b.val \div Pow2(b.len - a.len)) = a.val

Vrps == {[c |-> c, p |-> p, m |-> m, a |-> a] :
            c \in Caches, p \in Prefixes, m \in 0..W, a \in Asns}
WellFormed(v) == v.m >= v.p.len

Routes == [p : Prefixes, o : Origins]

\* RFC 6811 section 2
Covering(S, r) == {v \in S : Covers(v.p, r.p)}
Matches(v, r)  == ~IsNone(r.o) /\ v.a = AsOf(r.o) /\ v.a # 0 /\ r.p.len <= v.m
State(S, r) ==
  IF Covering(S, r) = {} THEN "NotFound"
  ELSE IF \E v \in Covering(S, r) : Matches(v, r) THEN "Valid"
  ELSE "Invalid"

Init == s = {}

Ops ==      {[k |-> "insert", v |-> v] : v \in {x \in Vrps : WellFormed(x)}}
       \cup {[k |-> "remove", v |-> v] : v \in {x \in Vrps : WellFormed(x)}}
       \cup [k : {"dropsource"}, c : Caches]
       \* the cache starts over: everything it had announced is replaced by a new snapshot (empty, or one VRP)
       \cup UNION {{[k |-> "reset", c |-> cc, snap |-> sn] :
                      sn \in {{}} \cup {{x} : x \in {y \in Vrps : WellFormed(y) /\ y.c = cc}}} : cc \in Caches}

Enabled(st, op) ==
  CASE op.k = "insert" -> Cardinality(st \cup {op.v}) <= MaxVrps
    [] op.k = "remove" -> op.v \in st        \* removing an absent VRP is a no-op; explored via the harness
    [] op.k = "reset"  -> Cardinality({v \in st : v.c # op.c} \cup op.snap) <= MaxVrps
    [] OTHER -> TRUE

Step(st, op) ==
  CASE op.k = "insert"     -> st \cup {op.v}
    [] op.k = "remove"     -> st \ {op.v}
    [] op.k = "dropsource" -> {v \in st : v.c # op.c}
    [] op.k = "reset"      -> {v \in st : v.c # op.c} \cup op.snap

Next == \E op \in Ops : Enabled(s, op) /\ s' = Step(s, op)
Spec == Init /\ [][Next]_s

---------------------------------------------------------------------------
\* Properties

\* VRPs for more-specific or sibling prefixes never influence the result
OnlyCoveringMatters ==
  \A r \in Routes : State(s, r) = State({v \in s : Covers(v.p, r.p)}, r)

\* monotonicity facts that characterise the three states
StatesConsistent ==
  \A r \in Routes :
    /\ (State(s, r) = "NotFound") <=> (\A v \in s : ~Covers(v.p, r.p))
    /\ (State(s, r) = "Valid") => ~IsNone(r.o)
    /\ (IsNone(r.o) /\ Covering(s, r) # {}) => State(s, r) = "Invalid"

\* AS0 VRPs never validate anything
As0NeverValid ==
  \A r \in Routes : (\A v \in Covering(s, r) : v.a = 0) => State(s, r) # "Valid"

\* per-cache operations touch only that cache's VRPs
DropSourceOK ==
  \A c \in Caches : LET t == Step(s, [k |-> "dropsource", c |-> c]) IN
     /\ \A v \in t : v.c # c
     /\ \A v \in s : v.c # c => v \in t
\* a reset leaves exactly the snapshot for that cache, and every other cache's VRPs
ResetOK ==
  \A c \in Caches : LET t == Step(s, [k |-> "reset", c |-> c, snap |-> {}]) IN
     /\ \A v \in t : v.c # c
     /\ \A v \in s : v.c # c => v \in t
=============================================================================
