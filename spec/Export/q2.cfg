CONSTANTS
  Prefix = {"p1", "p2"}
  Src = {"s1", "o"}
  SrcRank <- cRank
  ShardOf <- cShard
  Obs = "o"
  Suppress = {}
  Cls = {"x"}
  Reject = {}
  RejectSrc = {}
  SendMax = 1
  MaxChan = 2
  OpKinds = {}
  LidMode = "abstract"
  Dev = {}
SPECIFICATION Spec
CONSTRAINT ChanBound
INVARIANTS Converges NoStaleRoute IdsOK
CHECK_DEADLOCK FALSE
