---- MODULE MCq ----
EXTENDS Export
cRank == [x \in {"s1","s2","o"} |-> CASE x = "s1" -> 2 [] x = "s2" -> 3 [] x = "o" -> 1]
cShard == [x \in {"p1","p2"} |-> 0]
====
