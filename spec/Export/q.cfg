CONSTANTS
  Prefix = {"p1", "p2"}
  Src = {"s1", "s2", "o"}
  SrcRank <- cRank
  Obs = "o"
  Cls = {"x", "y"}
  Reject = {}
  RejectSrc = {}
  SendMax = 1
  MaxChan = 2
  LidMode = "abstract"
  Dev = {}
SPECIFICATION Spec
CONSTRAINT ChanBound
INVARIANTS Converges NoStaleRoute IdsOK
CHECK_DEADLOCK FALSE
