------------------------------- MODULE Export -------------------------------
(***************************************************************************)
(* C01: one observing neighbour's export pipeline.                         *)
(*                                                                         *)
(*   RIB (ranked eligible paths per prefix, destination ids, lowest-free   *)
(*   allocation)  --notification channel (FIFO)-->  Deliver                *)
(*   (process_nlri_change: diff against the export map, queue into the     *)
(*   pending reach / unreach maps)  --Flush-->  the neighbour's Adj-RIB-In *)
(*   (`mirror`).                                                           *)
(*                                                                         *)
(* RIB mutations, Deliver, Flush and Refresh are independently enabled     *)
(* actions, so TLC explores every interleaving of RIB changes with         *)
(* delivery and flushing.  Property: whenever the channel and the pending  *)
(* maps are empty, `mirror` equals what a brand-new session would be sent. *)
(***************************************************************************)
EXTENDS Naturals, Sequences, FiniteSets, TLC

CONSTANTS Prefix,      \* prefixes
          Src,         \* source peers, ordered by preference through SrcRank
          SrcRank,     \* [Src -> Nat] smaller = preferred (stands for the decision order)
          Obs,         \* the observing neighbour, as a member of Src (its own routes are never echoed) or "none"
          Suppress,    \* sources whose routes split horizon keeps from the observer (iBGP non-client to iBGP non-client,
                       \* across the route-server boundary): like the observer's own routes they are never sent to it
          Cls,         \* attribute classes (exported content)
          Reject,      \* classes the export policy rejects
          ShardOf,     \* [Prefix -> 0..9]: the table-manager shard that holds the prefix
          RejectSrc,   \* sources whose routes the export policy rejects (an RPKI condition: their routes validate Invalid)
          SendMax,     \* 1 = plain session, >1 = add-path TX window
          MaxChan,     \* bound on undelivered notifications (state constraint)
          OpKinds,     \* optional operation kinds explored ("filter")
          LidMode,     \* "abstract": local path id = source rank (finite, for exhaustive checking);
                       \* "real": the destination's counter as implemented (unbounded, for replayed walks)
          Dev

VARIABLE s

\* a path: [src, cls, lid, ll]   (lid: local path id, ll: source is LLGR-stale => LLGR_STALE on export)
\* rib[p]: sequence of paths, best first

Init ==
  s = [ rib    |-> [p \in Prefix |-> {}],
        hid    |-> [p \in Prefix |-> {}],         \* paths the import policy rejects: [src, lid, cls] - held by the table
                                                  \* (they keep the destination and their path id) but never ranked
        did    |-> [p \in Prefix |-> 0],
        nlid   |-> [p \in Prefix |-> 1],          \* next local path id of the destination ("real" mode)
        llgr   |-> {},                            \* LLGR-stale sources
        irej   |-> FALSE,                         \* the import policy currently also rejects the classes in IRejCls
        nhbad  |-> {},                            \* sources whose next hop is reported unreachable (every source uses
                                                  \* its own next hop): their paths stay in the table but are not ranked
        chan   |-> <<>>,
        xmap   |-> {},                            \* << id, pid >> marked as advertised
        reach  |-> {},                            \* pending: [key |-> <<id,pid>>, p, c (content)]
        unrch  |-> {},                            \* pending: [key |-> <<id,pid>>, p, pid]
        buf    |-> {},                            \* initial dump of a new session, not yet flushed: [p, pid, c]
        mirror |-> {} ]                           \* neighbour's view: [p, pid, c]

Content(st, x) == [src |-> x.src, cls |-> x.cls, ll |-> x.src \in st.llgr]

Ops ==      [k : {"announce"}, src : Src, p : Prefix, cls : Cls]
       \cup [k : {"withdraw"}, src : Src, p : Prefix]
       \* the source announces (or re-announces) the prefix in a form the import policy rejects
       \cup [k : {"filter"}, src : Src, p : Prefix]
       \cup [k : {"peerdown", "markllgr"}, src : Src]
       \* next-hop tracking reports the source's next hop unreachable / reachable again
       \cup [k : {"nhdown", "nhup"}, src : Src]
       \* the import policy is changed (it starts / stops rejecting the classes IRejCls): nothing happens to the table
       \* until a soft reset IN of a source re-evaluates that source's paths
       \cup [k : {"impflip"}] \cup [k : {"softin"}, src : Src]
       \cup [k : {"deliver", "flush", "refresh", "newsession"}]

Has(st, p, src) == \E x \in st.rib[p] : x.src = src
Hid(st, p, src) == \E x \in st.hid[p] : x.src = src
Holds(st, p, src) == Has(st, p, src) \/ Hid(st, p, src)

Enabled(st, op) ==
  CASE op.k = "withdraw" -> Holds(st, op.p, op.src)
    [] op.k = "filter"   -> "filter" \in OpKinds
    [] op.k = "peerdown" -> \E p \in Prefix : Holds(st, p, op.src)
    [] op.k = "markllgr" -> op.src \notin st.llgr /\ (\E p \in Prefix : Has(st, p, op.src))
    [] op.k = "nhdown"   -> "nhflap" \in OpKinds /\ op.src \notin st.nhbad
    [] op.k = "nhup"     -> "nhflap" \in OpKinds /\ op.src \in st.nhbad
    [] op.k = "impflip"  -> "softin" \in OpKinds
    [] op.k = "softin"   -> "softin" \in OpKinds /\ (\E p \in Prefix : Holds(st, p, op.src))
    [] op.k = "deliver"  -> st.chan # <<>>
    [] op.k = "flush"    -> st.reach # {} \/ st.unrch # {} \/ st.buf # {}
    [] OTHER -> TRUE

---------------------------------------------------------------------------
\* RIB side

\* destination ids: every shard of the table manager has its own lowest-free allocator and marks its ids with the shard
\* number, so ids are re-used among the prefixes of ONE shard only (ShardOf: which shard the dealer gives a prefix to)
FreeId(st, p) ==
  LET same == {q \in Prefix : ShardOf[q] = ShardOf[p]}
      base == 10 * ShardOf[p]
  IN base + CHOOSE i \in 1..(Cardinality(same) + 1) :
                 /\ \A q \in same : st.did[q] # base + i
                 /\ \A j \in 1..(i - 1) : \E q \in same : st.did[q] = base + j

\* rib[p] is a SET of paths [src, cls, lid]; ranking: LLGR-stale sources last, then SrcRank
RankKey(st, x) == (IF x.src \in st.llgr THEN 100 ELSE 0) + SrcRank[x.src]

RECURSIVE SortSet(_, _)
SortSet(st, S) ==
  IF S = {} THEN <<>>
  ELSE LET m == CHOOSE x \in S : \A y \in S : RankKey(st, x) <= RankKey(st, y)
       IN << m >> \o SortSet(st, S \ {m})
\* paths whose next hop is unreachable stay in the table (destination, path id) but are not candidates
Live(st, p)   == {x \in st.rib[p] : x.src \notin st.nhbad}
Ranked(st, p) == SortSet(st, Live(st, p))

Note(p, id, bc, ac, rep, paths) == [p |-> p, id |-> id, bc |-> bc, ac |-> ac, rep |-> rep, paths |-> paths]

\* identity + exported content of the best path
BestKey(st, p) == LET q == Ranked(st, p) IN
                  IF q = <<>> THEN <<>> ELSE << [src |-> q[1].src, cls |-> q[1].cls, ll |-> q[1].src \in st.llgr] >>

PathOf(st, p, src) == CHOOSE x \in st.rib[p] : x.src = src

\* announce / replace one path
HidOf(st, p, src) == CHOOSE x \in st.hid[p] : x.src = src
\* local path id of a path (re-)inserted by `src`: kept on replacement (of a ranked or of a rejected path); otherwise the
\* destination's counter, which restarts at 1 for a (re-)created destination.  In "abstract" mode it is the source's rank.
LidFor(st, p, src) ==
  IF LidMode = "abstract" THEN SrcRank[src]
  ELSE IF Has(st, p, src) THEN PathOf(st, p, src).lid
  ELSE IF Hid(st, p, src) THEN HidOf(st, p, src).lid
  ELSE IF st.rib[p] = {} /\ st.hid[p] = {} THEN 1 ELSE st.nlid[p]

DoAnnounce(st, op) ==
  LET had  == Holds(st, op.p, op.src)
      lid  == LidFor(st, op.p, op.src)
      x    == [src |-> op.src, cls |-> op.cls, lid |-> lid]
      id   == IF st.did[op.p] = 0 THEN FreeId(st, op.p) ELSE st.did[op.p]
      st2  == [st EXCEPT !.rib[op.p] = {y \in @ : y.src # op.src} \cup {x}, !.did[op.p] = id,
                         !.hid[op.p] = {y \in @ : y.src # op.src},
                         !.nlid[op.p] = IF LidMode = "abstract" \/ had THEN @ ELSE lid + 1]
      n    == Note(op.p, id, BestKey(st, op.p) # BestKey(st2, op.p), TRUE, IF had THEN lid ELSE 0, Ranked(st2, op.p))
  IN [st2 EXCEPT !.chan = Append(@, n)]

\* the source's path is (re-)inserted in a form the import policy rejects: it leaves the ranking but stays in the table.
\* The change is announced only if an accepted path was replaced (nothing changes for anybody otherwise).
\* classes the import policy rejects while `irej` is on (the `filter` operation's class "f" is always rejected)
IRejCls == {"y"}
ImportRejects(st, cls) == cls = "f" \/ (st.irej /\ cls \in IRejCls)

DoFilter(st, op) ==
  LET had  == Holds(st, op.p, op.src)
      wasIn == Has(st, op.p, op.src)
      lid  == LidFor(st, op.p, op.src)
      id   == IF st.did[op.p] = 0 THEN FreeId(st, op.p) ELSE st.did[op.p]
      st2  == [st EXCEPT !.rib[op.p] = {y \in @ : y.src # op.src}, !.did[op.p] = id,
                         !.hid[op.p] = {y \in @ : y.src # op.src} \cup {[src |-> op.src, lid |-> lid, cls |-> op.cls]},
                         !.nlid[op.p] = IF LidMode = "abstract" \/ had THEN @ ELSE lid + 1]
      n    == Note(op.p, id, BestKey(st, op.p) # BestKey(st2, op.p), TRUE, lid, Ranked(st2, op.p))
  IN IF wasIn THEN [st2 EXCEPT !.chan = Append(@, n)] ELSE st2

\* remove the path of `src` from prefix p (one notification)
RemoveOne(st, p, src, viaDrop) ==
  LET st2 == [st EXCEPT !.rib[p] = {y \in @ : y.src # src}, !.hid[p] = {y \in @ : y.src # src}]
      st3 == [st2 EXCEPT !.did[p] = IF st2.rib[p] = {} /\ st2.hid[p] = {} THEN 0 ELSE @]
      \* the removal of a destination's last path always counts as a change of the best path
      n   == Note(p, st.did[p], (st2.rib[p] = {} /\ st2.hid[p] = {}) \/ BestKey(st, p) # BestKey(st2, p), TRUE, 0, Ranked(st2, p))
  IN \* the removal of a rejected path is nobody's business; a peer drop also keeps quiet about a path that was not a
     \* candidate because its next hop is unreachable (a withdrawal of such a path is announced)
     IF Has(st, p, src) /\ (viaDrop => src \notin st.nhbad) THEN [st3 EXCEPT !.chan = Append(@, n)] ELSE st3

RECURSIVE RemoveAll(_, _, _)
RemoveAll(st, ps, src) ==
  IF ps = {} THEN st
  ELSE LET p == CHOOSE x \in ps : TRUE IN
       RemoveAll(IF Holds(st, p, src) THEN RemoveOne(st, p, src, TRUE) ELSE st, ps \ {p}, src)

\* LLGR marking of a source: its paths sink in the ranking and their exported content gains
\* LLGR_STALE; every prefix holding a path of that source is re-announced.  `old` is the
\* state before marking.
RECURSIVE NotifyAll(_, _, _, _)
NotifyAll(old, st, ps, src) ==
  IF ps = {} THEN st
  ELSE LET p == CHOOSE x \in ps : TRUE
           st2 == IF Has(st, p, src)
                  THEN [st EXCEPT !.chan = Append(@,
                          Note(p, st.did[p],
                               IF "LlgrMarkNotBestChange" \in Dev
                               THEN (Ranked(old, p)[1].src # Ranked(st, p)[1].src)    \* identity only
                               ELSE BestKey(old, p) # BestKey(st, p),                   \* identity or content
                               TRUE,
                               IF "LlgrMarkNotBestChange" \in Dev THEN 0 ELSE PathOf(st, p, src).lid,
                               Ranked(st, p)))]
                  ELSE st
       IN NotifyAll(old, st2, ps \ {p}, src)

\* a next-hop reachability report: every destination holding a path of the source (ranked or rejected by the import
\* policy - the flag is kept on those too) is re-announced
RECURSIVE NhNotify(_, _, _, _)
NhNotify(old, st, ps, src) ==
  IF ps = {} THEN st
  ELSE LET p == CHOOSE x \in ps : TRUE
           st2 == IF Holds(st, p, src)
                  THEN [st EXCEPT !.chan = Append(@, Note(p, st.did[p], BestKey(old, p) # BestKey(st, p), TRUE, 0, Ranked(st, p)))]
                  ELSE st
       IN NhNotify(old, st2, ps \ {p}, src)

\* (re-)insertion of a path of class `cls`: accepted or rejected by the import policy as it is now
Insert(st, src, p, cls) ==
  IF ImportRejects(st, cls) THEN DoFilter(st, [src |-> src, p |-> p, cls |-> cls])
  ELSE DoAnnounce(st, [src |-> src, p |-> p, cls |-> cls])

\* soft reset IN: every path of the source goes through the import policy again and is re-inserted with the outcome
HeldCls(st, p, src) == IF Has(st, p, src) THEN PathOf(st, p, src).cls ELSE HidOf(st, p, src).cls
RECURSIVE SoftIn(_, _, _)
SoftIn(st, ps, src) ==
  IF ps = {} THEN st
  ELSE LET p == CHOOSE x \in ps : TRUE IN
       SoftIn(IF Holds(st, p, src) THEN Insert(st, src, p, HeldCls(st, p, src)) ELSE st, ps \ {p}, src)

---------------------------------------------------------------------------
\* Neighbour side: process one notification (process_nlri_change)

Hidden == {Obs} \cup Suppress
Visible(st, paths) == SelectSeq(paths, LAMBDA x : x.src \notin Hidden)
Accepted(x) == x.cls \notin Reject /\ x.src \notin RejectSrc
Take(q, n) == IF Len(q) <= n THEN q ELSE SubSeq(q, 1, n)

\* Export-map / pending-map key.  The implementation keys by destination id (cheap to hash);
\* ids are re-used by the lowest-free allocator, so the sound key is the prefix itself.
XKey(id, p, pid) == IF "ExportMapKeyedById" \in Dev THEN << id, pid >> ELSE << p, pid >>

\* queue a reach: cancels a pending unreach with the same key
QReach(st, id, pid, p, c) ==
  LET k == XKey(id, p, pid) IN
  [st EXCEPT !.reach = {r \in @ : r.key # k} \cup {[key |-> k, p |-> p, pid |-> pid, c |-> c]},
             !.unrch = IF "CoalesceKeyIgnoresPrefix" \in Dev
                       THEN {u \in @ : u.key # k}
                       ELSE {u \in @ : ~(u.key = k /\ u.p = p)},
             !.xmap  = @ \cup {k}]

QUnreach(st, id, pid, p) ==
  LET k == XKey(id, p, pid) IN
  [st EXCEPT !.reach = {r \in @ : ~(r.key = k /\ (r.p = p \/ "CoalesceKeyIgnoresPrefix" \in Dev))},
             !.unrch = (IF "CoalesceKeyIgnoresPrefix" \in Dev THEN {u \in @ : u.key # k} ELSE @)
                       \cup {[key |-> k, p |-> p, pid |-> pid]},
             !.xmap  = @ \ {k}]

Process(st, n) ==
  IF SendMax = 1 THEN
    IF ~n.bc THEN st
    ELSE LET best == IF n.paths = <<>> THEN <<>> ELSE << n.paths[1] >>
             ok   == best # <<>> /\ best[1].src \notin Hidden /\ Accepted(best[1])
         IN IF ok THEN QReach(st, n.id, 0, n.p, Content(st, best[1]))
            ELSE IF XKey(n.id, n.p, 0) \in st.xmap THEN QUnreach(st, n.id, 0, n.p) ELSE st
  ELSE
    IF ~n.ac THEN st
    ELSE LET top  == SelectSeq(Take(Visible(st, n.paths), SendMax), Accepted)
             cur  == {top[i].lid : i \in 1..Len(top)}
             sent == {k[2] : k \in {y \in st.xmap : y[1] = XKey(n.id, n.p, 0)[1]}}
             \* withdraw what is no longer in the window
             RECURSIVE W(_, _)
             W(t, S) == IF S = {} THEN t ELSE LET pid == CHOOSE x \in S : TRUE IN W(QUnreach(t, n.id, pid, n.p), S \ {pid})
             st1  == W(st, sent \ cur)
             \* advertise what is new or replaced
             RECURSIVE A(_, _)
             A(t, i) == IF i > Len(top) THEN t
                        ELSE LET x == top[i] IN
                             A(IF XKey(n.id, n.p, x.lid) \notin st.xmap \/ n.rep = x.lid
                               THEN QReach(t, n.id, x.lid, n.p, Content(st, x)) ELSE t, i + 1)
         IN A(st1, 1)

\* a fresh walk of the RIB under the current policy (route refresh / soft reset out):
\* every prefix present is re-processed as if everything had changed
RECURSIVE Walk(_, _)
Walk(st, ps) ==
  IF ps = {} THEN st
  ELSE LET p == CHOOSE x \in ps : TRUE
           q == IF "DumpTruncatesBeforeFilter" \in Dev THEN Take(Ranked(st, p), SendMax) ELSE Ranked(st, p)
       IN Walk(IF Live(st, p) = {} THEN st ELSE Process(st, Note(p, st.did[p], TRUE, TRUE, 0, q)), ps \ {p})

\* order on the wire: the buffered initial dump first, then withdrawals, then announcements
DoFlush(st) ==
  LET gone == {[p |-> u.p, pid |-> u.pid] : u \in st.unrch}
      m0   == {m \in st.mirror : \A b \in st.buf : ~(b.p = m.p /\ b.pid = m.pid)} \cup st.buf
      m1   == {m \in m0 : [p |-> m.p, pid |-> m.pid] \notin gone}
      new  == {[p |-> r.p, pid |-> r.pid, c |-> r.c] : r \in st.reach}
      m2   == {m \in m1 : \A r \in new : ~(r.p = m.p /\ r.pid = m.pid)} \cup new
  IN [st EXCEPT !.mirror = m2, !.reach = {}, !.unrch = {}, !.buf = {}]

Step(st, op) ==
  CASE op.k = "announce" -> Insert(st, op.src, op.p, op.cls)
    [] op.k = "withdraw" -> RemoveOne(st, op.p, op.src, FALSE)
    [] op.k = "filter"   -> DoFilter(st, [src |-> op.src, p |-> op.p, cls |-> "f"])
    [] op.k = "impflip"  -> [st EXCEPT !.irej = ~@]
    [] op.k = "softin"   -> SoftIn(st, Prefix, op.src)
    [] op.k = "peerdown" -> [RemoveAll(st, Prefix, op.src) EXCEPT !.llgr = @ \ {op.src}]
    [] op.k = "markllgr" -> NotifyAll(st, [st EXCEPT !.llgr = @ \cup {op.src}], Prefix, op.src)
    [] op.k = "nhdown"   -> NhNotify(st, [st EXCEPT !.nhbad = @ \cup {op.src}], Prefix, op.src)
    [] op.k = "nhup"     -> NhNotify(st, [st EXCEPT !.nhbad = @ \ {op.src}], Prefix, op.src)
    [] op.k = "deliver"  -> Process([st EXCEPT !.chan = Tail(@)], Head(st.chan))
    [] op.k = "flush"    -> DoFlush(st)
    [] op.k = "refresh"  -> Walk(st, Prefix)
    [] op.k = "newsession" ->
         \* the neighbour reconnects: it has forgotten everything, the session starts from an empty export map
         \* with the dump of the current RIB buffered (registered under the RIB lock: no notification is missed)
         LET z == Walk([st EXCEPT !.chan = <<>>, !.xmap = {}, !.reach = {}, !.unrch = {}, !.buf = {}, !.mirror = {}], Prefix)
         IN [z EXCEPT !.buf = {[p |-> r.p, pid |-> r.pid, c |-> r.c] : r \in z.reach}, !.reach = {}]

Next == \E op \in Ops : Enabled(s, op) /\ s' = Step(s, op)
Spec == Init /\ [][Next]_s
ChanBound == Len(s.chan) <= MaxChan

---------------------------------------------------------------------------
\* What a brand-new session would be sent from the current RIB
FreshDump(st) ==
  UNION {
    LET r   == Ranked(st, p)
        q   == IF "DumpTruncatesBeforeFilter" \in Dev
               THEN Visible(st, Take(r, SendMax)) ELSE Visible(st, r)
        top == IF SendMax = 1
               THEN (IF r # <<>> /\ r[1].src \notin Hidden /\ Accepted(r[1]) THEN << r[1] >> ELSE <<>>)
               ELSE SelectSeq(Take(q, SendMax), Accepted)
    IN {[p |-> p, pid |-> IF SendMax = 1 THEN 0 ELSE top[i].lid, c |-> Content(st, top[i])] : i \in 1..Len(top)}
    : p \in Prefix }

Quiescent(st) == st.chan = <<>> /\ st.reach = {} /\ st.unrch = {} /\ st.buf = {}

\* C01
Converges == Quiescent(s) => s.mirror = FreshDump(s)

\* no withdrawal is lost: whatever the neighbour holds at quiescence is exportable now
NoStaleRoute == Quiescent(s) => \A m \in s.mirror : \E f \in FreshDump(s) : f.p = m.p /\ f.pid = m.pid

IdsOK == \A p, q \in Prefix : (p # q /\ s.did[p] # 0) => s.did[p] # s.did[q]
=============================================================================
