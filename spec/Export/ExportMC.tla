------------------------------ MODULE ExportMC ------------------------------
\* Behaviour emission for Export (random walks): per step the operation, the model's mirror,
\* the mirror the model reaches after delivering everything and flushing (`qmirror`), and
\* what a brand-new session would be sent (`fresh`).
EXTENDS Export, Json
VARIABLES pre, act
GenInit == Init /\ pre = s /\ act = [k |-> "init"]
\* RIB changes are paused while the channel is over its bound; delivery and flushing always go on
GenNext == \E op \in Ops : /\ Enabled(s, op)
                           /\ (Len(s.chan) <= MaxChan \/ op.k \in {"deliver", "flush"})
                           \* operations that notify several prefixes do so in the table's hash order, which
                           \* the model does not know: behaviours for replay use them on one prefix at a time
                           /\ (op.k \in {"peerdown", "markllgr"} =>
                                 Cardinality({p \in Prefix : Has(s, p, op.src)}) <= 1)
                           /\ (op.k \in {"nhdown", "nhup", "softin"} =>
                                 Cardinality({p \in Prefix : Holds(s, p, op.src)}) <= 1)
                           \* the LLGR mark lives on the session object: a notification still in the channel
                           \* keeps the old session's mark.  The model keeps one mark per source, so a source
                           \* goes down in replayed behaviours only once nothing about it is undelivered.
                           /\ (op.k = "peerdown" =>
                                 \A i \in 1..Len(s.chan) : \A j \in 1..Len(s.chan[i].paths) : s.chan[i].paths[j].src # op.src)
                           /\ s' = Step(s, op) /\ act' = op /\ pre' = s
GenSpec == GenInit /\ [][GenNext]_<<s, pre, act>>

RECURSIVE SeqOf(_)
SeqOf(S) == IF S = {} THEN <<>> ELSE LET x == CHOOSE y \in S : TRUE IN <<x>> \o SeqOf(S \ {x})

RECURSIVE DrainAll(_)
DrainAll(st) == IF st.chan # <<>> THEN DrainAll(Step(st, [k |-> "deliver"])) ELSE DoFlush(st)

MJ(m) == SeqOf({[p |-> x.p, pid |-> x.pid, src |-> x.c.src, cls |-> x.c.cls, ll |-> x.c.ll] : x \in m})

EmitWalk == \/ act.k = "init"
            \/ PrintT(ToJson([lvl |-> TLCGet("level"), op |-> act, mirror |-> MJ(s.mirror),
                              chan |-> Len(s.chan), pend |-> (s.reach = {} /\ s.unrch = {} /\ s.buf = {}),
                              qmirror |-> MJ(DrainAll(s).mirror), fresh |-> MJ(FreshDump(s))]))
=============================================================================
