--------------------------- MODULE PeerFsmTrace ---------------------------
\* Implementation -> specification: accepts an ndjson trace recorded from the real
\* PeerFsm iff every step is the step PeerFsm prescribes (same projected state, same
\* outputs) -- and, through the INVARIANTS of the cfg, every C07 invariant holds in
\* every state along it.  A record {"op":{"k":"reset"}} starts a new history.
EXTENDS PeerFsm, Json, IOUtils

Rec == ndJsonDeserialize(IOEnv.TRACE)

VARIABLE l

Proj(st) == [r \in Roles |-> [st |-> st[r].st, rid |-> st[r].rid,
                              hold |-> st[r].hold, ka |-> st[r].ka]]

TraceInit == Init /\ l = 1

TraceNext ==
  /\ l <= Len(Rec)
  /\ LET e == Rec[l] IN
       IF e.op.k = "reset"
       THEN s' = [A |-> NoConn, P |-> NoConn]
       ELSE /\ s' = Step(s, e.op)
            /\ Proj(s') = e.state
            /\ Out(s, e.op) = e.obs
  /\ l' = l + 1

TraceSpec == TraceInit /\ [][TraceNext]_<<s, l>>

TraceAccepted ==
  LET d == TLCGet("stats").diameter IN
  IF d - 1 = Len(Rec) THEN TRUE
  ELSE Print(<<"TRACE REJECTED at record", d, Rec[d], "model state", s>>, FALSE)
=============================================================================
