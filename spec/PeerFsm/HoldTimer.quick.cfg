CONSTANTS
  LocalId = 2
  RemoteIds = {1, 3}
  LocalHold = 9
  RemoteHolds = {0, 3, 4, 9}
  InitialHold = 12
SPECIFICATION TSpec
INVARIANTS TypeOK Negotiated HoldDeadlineFollowsReceipt ZeroDisables KeepaliveScheduled OpenSentTimer ExpiryExact NoOrphanTimers AtMostOneUp
CHECK_DEADLOCK FALSE
