CONSTANTS
  LocalId = 2
  RemoteIds = {1, 2, 3}
  LocalHold = 90
  RemoteHolds = {30}
  InitialHold = 240
SPECIFICATION GenSpec
INVARIANT Emit
CHECK_DEADLOCK FALSE
