CONSTANTS
  LocalId = 2
  RemoteIds = {1, 2, 3}
  LocalHold = 90
  RemoteHolds = {30}
  InitialHold = 240
SPECIFICATION Spec
INVARIANTS TypeOK EstablishedOnlyAfterOpenExchange AtMostOneUp EveryStepOK HoldArithmetic
CHECK_DEADLOCK FALSE
