------------------------------ MODULE HoldTimer ------------------------------
(***************************************************************************)
(* C08: PeerFsm composed with the session driver's two timers and virtual  *)
(* time.  Each connection (role) is served by its own session task with    *)
(* its own hold and keepalive timer; the driver arms them as PeerFsm's     *)
(* outputs say (ArmHold / ArmKa), a timer input is enabled only when that  *)
(* timer is due, and time (Tick) cannot pass a due timer.                  *)
(*                                                                         *)
(* Timers are stored as *remaining* seconds so the state space is finite   *)
(* without a state constraint.  `idle[r]` is a ghost: seconds since the    *)
(* last OPEN/KEEPALIVE/UPDATE was received on connection r.                *)
(***************************************************************************)
EXTENDS PeerFsm

VARIABLE tm     \* [r \in Roles |-> [hold |-> rem, ka |-> rem, idle |-> n]]

MaxHold == LET S == RemoteHolds \cup {LocalHold, InitialHold} IN CHOOSE m \in S : \A x \in S : x <= m

NoTimers == [hold |-> Never, ka |-> Never, idle |-> 0]

TInit == Init /\ tm = [r \in Roles |-> NoTimers]

Due(r, which) == tm[r][which] = 0

TEnabled(op) ==
  CASE op.k = "holdtimer" -> Due(op.r, "hold")
    [] op.k = "katimer"   -> Due(op.r, "ka")
    [] OTHER -> TRUE

Rx(op) == op.k \in {"open", "keepalive", "update"}

\* timers of role q after a step by role op.r with outputs `out`
TmAfter(q, op, out, post) ==
  IF Ends(out, q) \/ post[q].st = "None" THEN NoTimers
  ELSE LET h == ArmHold(out, q)  k == ArmKa(out, q) IN
       [hold |-> IF h = Keep THEN tm[q].hold ELSE h,
        ka   |-> IF k = Keep THEN tm[q].ka ELSE k,
        idle |-> IF q = op.r /\ Rx(op) THEN 0 ELSE tm[q].idle]

Do(op) == /\ TEnabled(op)
          /\ s' = Step(s, op)
          /\ tm' = [q \in Roles |-> TmAfter(q, op, Out(s, op), Step(s, op))]

Dec(x) == IF x = Never THEN Never ELSE x - 1

Tick == /\ \A r \in Roles : tm[r].hold # 0 /\ tm[r].ka # 0
        /\ \E r \in Roles : tm[r].hold # Never \/ tm[r].ka # Never   \* else nothing can ever happen
        /\ tm' = [r \in Roles |-> [hold |-> Dec(tm[r].hold), ka |-> Dec(tm[r].ka),
                                   idle |-> IF s[r].st = "None" \/ tm[r].idle > MaxHold
                                            THEN tm[r].idle ELSE tm[r].idle + 1]]
        /\ UNCHANGED s

TNext == Tick \/ \E op \in Ops : Do(op)
TSpec == TInit /\ [][TNext]_<<s, tm>>

---------------------------------------------------------------------------
\* Properties (C08)

\* The hold time in force is the smaller of the two advertised, keepalive a third of it.
Negotiated == HoldArithmetic

\* After the OPEN exchange the hold deadline is exactly (last receipt) + H: it moves on
\* OPEN/KEEPALIVE/UPDATE receipt and on nothing else.
HoldDeadlineFollowsReceipt ==
  \A r \in Roles : (Up(s[r]) /\ s[r].hold > 0) => tm[r].hold + tm[r].idle = s[r].hold

\* Negotiated zero: no hold or keepalive timer runs after the OPEN exchange.
ZeroDisables ==
  \A r \in Roles : (Up(s[r]) /\ s[r].hold = 0) => tm[r].hold = Never /\ tm[r].ka = Never

\* While a hold time is in force a keepalive is always scheduled within H/3.
KeepaliveScheduled ==
  \A r \in Roles : (Up(s[r]) /\ s[r].hold > 0) => tm[r].ka <= s[r].hold \div 3

\* In OpenSent the large initial timer runs (if hold timing is configured at all).
OpenSentTimer ==
  \A r \in Roles : s[r].st = "OpenSent" =>
     IF LocalHold = 0 THEN tm[r].hold = Never ELSE tm[r].hold <= InitialHold

\* A hold-timer expiry on an up connection happens exactly when nothing was received
\* for the negotiated hold time (and only if that is non-zero).
ExpiryExact ==
  \A r \in Roles : Up(s[r]) =>
     /\ (Due(r, "hold") <=> (s[r].hold > 0 /\ tm[r].idle = s[r].hold))
     /\ (s[r].hold > 0 => tm[r].idle <= s[r].hold)

\* A free slot has no timers.
NoOrphanTimers == \A r \in Roles : s[r].st = "None" => tm[r] = NoTimers
=============================================================================
