------------------------------ MODULE PeerFsm ------------------------------
(***************************************************************************)
(* The per-peer BGP connection state machine of daemon/src/fsm.rs          *)
(* (`PeerFsm` = two `Connection` slots, active and passive, plus RFC 4271  *)
(* section 6.8 collision resolution), written as a deterministic step      *)
(* function so that the same operator serves TLC's exhaustive search, the  *)
(* transition generator (PeerFsmMC) and the trace validator (PeerFsmTrace).*)
(*                                                                         *)
(* One action per `Input` of the code; the input, its role and its payload *)
(* are the operation record `op`.  Messages the *parser* rejects never     *)
(* reach this machine (the driver terminates and later feeds the           *)
(* `Disconnected` fallback), so an OPEN here is either acceptable or has   *)
(* the wrong AS.                                                           *)
(***************************************************************************)
EXTENDS Naturals, Sequences, FiniteSets, TLC

CONSTANTS LocalId,       \* local BGP identifier
          RemoteIds,     \* identifiers a remote OPEN may carry
          LocalHold,     \* configured local hold time (seconds)
          RemoteHolds,   \* hold times a remote OPEN may carry
          InitialHold    \* RFC 4271 8.2.2 "large value" armed in OpenSent (240 in the code)

VARIABLE s               \* [A |-> conn, P |-> conn]

Roles    == {"A", "P"}
Other(r) == IF r = "A" THEN "P" ELSE "A"
Min(a,b) == IF a < b THEN a ELSE b

\* State codes as they appear on the wire in the FSM-error NOTIFICATION.
Code(st) == CASE st = "None" -> 0 [] st = "OpenSent" -> 3
              [] st = "OpenConfirm" -> 4 [] st = "Established" -> 5

\* `sent/acc/kad` are ghost history bits defined on the *inputs* only:
\* an OPEN was sent on this connection; an acceptable OPEN arrived on it;
\* a KEEPALIVE arrived after that.  They are reset when the slot is freed.
NoConn == [st |-> "None", rid |-> 0, hold |-> 0, ka |-> 0,
           sent |-> FALSE, acc |-> FALSE, kad |-> FALSE]

Init == s = [A |-> NoConn, P |-> NoConn]

ConnKinds == {"keepalive", "update", "notification", "refresh", "katimer",
              "holdtimer", "disconnected", "admin", "updatesent"}

Ops == [k : {"connected"}, r : Roles]
       \cup [k : {"open"}, r : Roles, asok : BOOLEAN, rid : RemoteIds, hold : RemoteHolds]
       \cup [k : ConnKinds, r : Roles]

---------------------------------------------------------------------------
\* Outputs: sequences of records [r, t, v, n].
\*   t = "send_open" | "send_keepalive" | "send_notif" | "sethold" | "setka" |
\*       "negotiated" | "established" | "down" | "state" | "refresh" |
\*       "close" | "stop_active"
\*   v = seconds / state code / down-reason code; n = notification code*256+subcode
O(r, t, v, n) == [r |-> r, t |-> t, v |-> v, n |-> n]

RHold == 1  RRemote == 2  RLocal == 3  RFsm == 4  RAdmin == 5  RIo == 6

FsmErr(c)  == 5 * 256 + Code(c.st)
BadPeerAs  == 2 * 256 + 2
HoldExp    == 4 * 256
CeaseAdmin == 6 * 256 + 2
CeaseColl  == 6 * 256 + 7

\* Result of feeding one input to one Connection:
\*   c  : the connection afterwards, out : its outputs (role-tagged),
\*   dn : a SessionDown was emitted, oc : it entered OpenConfirm.
R(c, out, dn, oc) == [c |-> c, out |-> out, dn |-> dn, oc |-> oc]
Down(r, c, reason, n) == R(c, <<O(r, "down", reason, n)>>, TRUE, FALSE)

ConnStep(c, op) ==
  LET r == op.r IN
  CASE op.k = "open" ->
         IF c.st # "OpenSent" THEN Down(r, c, RLocal, FsmErr(c))
         ELSE IF ~op.asok THEN Down(r, c, RLocal, BadPeerAs)
         ELSE LET h  == Min(LocalHold, op.hold)
                  ka == IF h # 0 THEN h \div 3 ELSE c.ka
                  c2 == [c EXCEPT !.st = "OpenConfirm", !.rid = op.rid,
                                  !.hold = h, !.ka = ka]
                  tm == IF h # 0
                        THEN <<O(r, "setka", ka, 0), O(r, "sethold", h, 0)>>
                        \* negotiated 0: the 240 s OpenSent timer must not
                        \* survive the OPEN exchange; "sethold 0" disarms it.
                        ELSE IF LocalHold # 0 THEN <<O(r, "sethold", 0, 0)>> ELSE <<>>
              IN R(c2, <<O(r, "send_keepalive", 0, 0), O(r, "negotiated", 0, 0)>>
                        \o tm \o <<O(r, "state", 4, 0)>>, FALSE, TRUE)
    [] op.k = "keepalive" ->
         CASE c.st = "OpenConfirm" ->
                R([c EXCEPT !.st = "Established"],
                  <<O(r, "sethold", c.hold, 0), O(r, "established", 0, 0),
                    O(r, "state", 5, 0)>>, FALSE, FALSE)
           [] c.st = "Established" -> R(c, <<O(r, "sethold", c.hold, 0)>>, FALSE, FALSE)
           [] OTHER -> Down(r, c, RLocal, FsmErr(c))
    [] op.k = "update" ->
         IF c.st = "Established" THEN R(c, <<O(r, "sethold", c.hold, 0)>>, FALSE, FALSE)
         ELSE Down(r, c, RLocal, FsmErr(c))
    [] op.k = "refresh" ->
         IF c.st = "Established" THEN R(c, <<O(r, "refresh", 0, 0)>>, FALSE, FALSE)
         ELSE Down(r, c, RLocal, FsmErr(c))
    [] op.k = "notification" -> Down(r, c, RRemote, 0)
    [] op.k = "katimer" ->
         IF c.st \in {"OpenConfirm", "Established"}
         THEN R(c, <<O(r, "send_keepalive", 0, 0), O(r, "setka", c.ka, 0)>>, FALSE, FALSE)
         ELSE R(c, <<>>, FALSE, FALSE)
    [] op.k = "holdtimer"    -> Down(r, c, RHold, HoldExp)
    [] op.k = "disconnected" -> Down(r, c, RIo, 0)
    [] op.k = "admin"        -> Down(r, c, RAdmin, CeaseAdmin)
    [] op.k = "updatesent" ->
         IF c.st = "Established" /\ c.ka > 0
         THEN R(c, <<O(r, "setka", c.ka, 0)>>, FALSE, FALSE)
         ELSE R(c, <<>>, FALSE, FALSE)

\* Ghost history, from the inputs alone.
Ghost(c, op) ==
  [c EXCEPT !.acc = c.acc \/ (op.k = "open" /\ op.asok),
            !.kad = c.kad \/ (op.k = "keepalive" /\ c.acc)]

\* RFC 4271 6.8 as the code applies it when `r` has just entered OpenConfirm.
\* Returns the losing role or "none".
Loser(st, r) ==
  LET o == Other(r) IN
  IF st[o].st \notin {"OpenConfirm", "Established"} THEN "none"
  ELSE IF st[o].st = "Established" THEN r
  ELSE IF LocalId > st[r].rid THEN "P" ELSE "A"

\* Full step: [s |-> next state, out |-> outputs]
StepOut(st, op) ==
  LET r == op.r IN
  IF op.k = "connected" THEN
    IF st[r].st # "None" THEN [s |-> st, out |-> <<O("-", "close", 0, 0)>>]
    ELSE [s   |-> [st EXCEPT ![r] = [NoConn EXCEPT !.st = "OpenSent", !.sent = TRUE]],
          out |-> <<O(r, "send_open", LocalHold, 0), O(r, "state", 3, 0)>>
                  \o (IF LocalHold # 0 THEN <<O(r, "sethold", InitialHold, 0)>> ELSE <<>>)]
  ELSE IF st[r].st = "None" THEN [s |-> st, out |-> <<>>]
  ELSE
    LET res  == ConnStep(Ghost(st[r], op), op)
        st1  == [st EXCEPT ![r] = res.c]
        los  == IF res.oc THEN Loser(st1, r) ELSE "none"
        st2  == IF los = "none" THEN st1 ELSE [st1 EXCEPT ![los] = NoConn]
        stop == IF res.oc /\ r = "P" THEN <<O("-", "stop_active", 0, 0)>> ELSE <<>>
        coll == IF los = "none" THEN <<>>
                ELSE IF los = r THEN <<O(r, "down", RLocal, CeaseColl)>>
                ELSE <<O(los, "send_notif", 0, CeaseColl)>>
        st3  == IF res.dn THEN [st2 EXCEPT ![r] = NoConn] ELSE st2
        idle == IF res.dn THEN <<O(r, "state", 0, 0)>> ELSE <<>>
    IN [s |-> st3, out |-> res.out \o stop \o coll \o idle]

Step(st, op) == StepOut(st, op).s
Out(st, op)  == StepOut(st, op).out

---------------------------------------------------------------------------
\* Driver semantics of the timer outputs (PeerSession::apply_outputs): the outputs of one
\* step are applied in order, the last one wins; "sethold 0" disarms the hold timer.
Never == 1000000     \* timer not running
Keep  == 2000000     \* this step does not touch the timer

LastOf(out, r, t) ==
  LET I == {i \in 1..Len(out) : out[i].r = r /\ out[i].t = t}
  IN IF I = {} THEN 0 ELSE CHOOSE i \in I : \A j \in I : j <= i

ArmHold(out, r) == LET i == LastOf(out, r, "sethold") IN
                   IF i = 0 THEN Keep ELSE IF out[i].v = 0 THEN Never ELSE out[i].v
ArmKa(out, r)   == LET i == LastOf(out, r, "setka") IN
                   IF i = 0 THEN Keep ELSE out[i].v
\* the session task serving connection r ends with this step ("close" ends only the
\* newcomer's task, which never owned the slot)
Ends(out, r) == \E i \in 1..Len(out) : out[i].r = r /\ out[i].t \in {"down", "send_notif"}

Next == \E op \in Ops : s' = Step(s, op)
Spec == Init /\ [][Next]_s

---------------------------------------------------------------------------
\* Properties (C07)

Live(c) == c.st # "None"
Up(c)   == c.st \in {"OpenConfirm", "Established"}

TypeOK == \A r \in Roles :
            /\ s[r].st \in {"None", "OpenSent", "OpenConfirm", "Established"}
            /\ s[r].rid \in RemoteIds \cup {0}

\* (1) Established only through OPEN sent, acceptable OPEN received, KEEPALIVE.
EstablishedOnlyAfterOpenExchange ==
  \A r \in Roles :
     /\ (s[r].st = "Established" => s[r].sent /\ s[r].acc /\ s[r].kad)
     /\ (s[r].st = "OpenConfirm" => s[r].sent /\ s[r].acc)
     /\ (Live(s[r]) => s[r].sent)

\* (2) At most one connection in OpenConfirm-or-Established.
AtMostOneUp == ~(Up(s["A"]) /\ Up(s["P"]))

HasOut(out, r, t, v, n) == \E i \in 1..Len(out) : out[i] = O(r, t, v, n)
IsDown(out, r) == \E i \in 1..Len(out) : out[i].r = r /\ out[i].t = "down"

\* Inputs a connection in state `st` may legally receive.
Allowed(c, op) ==
  CASE op.k = "open"      -> c.st = "OpenSent"
    [] op.k = "keepalive" -> c.st \in {"OpenConfirm", "Established"}
    [] op.k \in {"update", "refresh"} -> c.st = "Established"
    [] OTHER -> TRUE

\* (3)-(5) as a predicate on every enabled step of the current state.
StepOK(op) ==
  LET r == op.r  c == s[r]  t == Step(s, op)  out == Out(s, op) IN
  /\ \* a message not allowed in the current state: FSM error carrying that state
     (Live(c) /\ op.k \in {"open", "keepalive", "update", "refresh"} /\ ~Allowed(c, op))
       => HasOut(out, r, "down", RLocal, 5 * 256 + Code(c.st)) /\ ~Live(t[r])
  /\ \* an OPEN with the wrong AS is refused
     (c.st = "OpenSent" /\ op.k = "open" /\ ~op.asok)
       => HasOut(out, r, "down", RLocal, BadPeerAs) /\ ~Live(t[r])
  /\ \* NOTIFICATION, hold expiry, disconnect, admin shutdown: back to Idle, slot free
     (Live(c) /\ op.k \in {"notification", "holdtimer", "disconnected", "admin"})
       => /\ ~Live(t[r]) /\ IsDown(out, r)
          /\ Step(t, [k |-> "connected", r |-> r])[r].st = "OpenSent"
  /\ \* nothing but a legal KEEPALIVE in OpenConfirm establishes
     (t[r].st = "Established" /\ c.st # "Established")
       => c.st = "OpenConfirm" /\ op.k = "keepalive"
  /\ \* collision: an Established connection survives a newcomer; otherwise the
     \* survivor is the one initiated by the higher identifier; loser gets Cease/7
     LET o == Other(r) IN
     (Up(s[o]) /\ ~Up(c) /\ op.k = "open" /\ op.asok /\ c.st = "OpenSent") =>
        IF s[o].st = "Established"
        THEN /\ t[o] = s[o] /\ ~Live(t[r]) /\ HasOut(out, r, "down", RLocal, CeaseColl)
        ELSE IF LocalId > op.rid
             THEN /\ Up(t["A"]) /\ ~Live(t["P"])
                  /\ (IF r = "P" THEN HasOut(out, "P", "down", RLocal, CeaseColl)
                                 ELSE HasOut(out, "P", "send_notif", 0, CeaseColl))
             ELSE IF LocalId < op.rid
             THEN /\ Up(t["P"]) /\ ~Live(t["A"])
                  /\ (IF r = "A" THEN HasOut(out, "A", "down", RLocal, CeaseColl)
                                 ELSE HasOut(out, "A", "send_notif", 0, CeaseColl))
             ELSE \* equal identifiers: the statement leaves the survivor open
                  Up(t["A"]) # Up(t["P"])
  /\ \* a step of one role never touches the other except to close it on collision
     LET o == Other(r) IN t[o] = s[o] \/ (t[o] = NoConn /\ op.k = "open")

EveryStepOK == \A op \in Ops : StepOK(op)

\* Timer arithmetic (shared with C08): the values handed to the driver.
HoldArithmetic ==
  \A r \in Roles : Up(s[r]) =>
     /\ \E h \in RemoteHolds : s[r].hold = Min(LocalHold, h)
     /\ (s[r].hold # 0 => s[r].ka = s[r].hold \div 3)
=============================================================================
