---------------------------- MODULE PeerFsmMC ----------------------------
\* TLC-only companion of PeerFsm: one TLC state per *transition* of PeerFsm,
\* printed as a JSON EDGE line (DESIGN 3.2).
EXTENDS PeerFsm, Json

VARIABLES pre, act

GenInit == Init /\ pre = s /\ act = [k |-> "init"]
GenNext == \E op \in Ops : /\ s' = Step(s, op) /\ act' = op /\ pre' = s
GenSpec == GenInit /\ [][GenNext]_<<s, pre, act>>

Emit == \/ act.k = "init"
        \/ PrintT(ToJson([pre |-> pre, op |-> act, post |-> s, obs |-> Out(pre, act)]))
=============================================================================
