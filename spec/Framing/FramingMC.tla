----------------------------- MODULE FramingMC -----------------------------
EXTENDS Framing, Json
VARIABLES pre, act
GenInit == Init /\ pre = s /\ act = 0
GenNext == \E k \in 1..(4 * MaxFrames) : Feed(k) /\ pre' = s /\ act' = k
GenSpec == GenInit /\ [][GenNext]_<<s, pre, act>>
\* every transition once: the stream, what had arrived, how much arrives now, what must be out before and after
EmitEdge == act = 0 \/ PrintT(ToJson([fs |-> s.fs, fed |-> pre.fed, k |-> act, out0 |-> pre.out, out1 |-> s.out, dead1 |-> s.dead,
                                       pos1 |-> s.pos]))
=============================================================================
