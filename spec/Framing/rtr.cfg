CONSTANTS
  Classes = {"hdronly", "good", "badbody", "short", "long", "skip", "trunc"}
  MaxFrames = 3
SPECIFICATION GenSpec
INVARIANTS FragmentationIndependent NoCompleteFrameLeft Progress EmitEdge
CHECK_DEADLOCK FALSE
