------------------------------ MODULE Framing ------------------------------
(***************************************************************************)
(* C03: the contract of a stream decoder (BGP PeerCodec::try_parse, RTR    *)
(* RtrCodec::decode) under arbitrary fragmentation of the byte stream.     *)
(*                                                                         *)
(* The wire is a sequence of frames; a frame is abstracted to its class    *)
(* and to "units" - the places where the stream can be cut that matter:    *)
(* inside the length field, at the end of the header, inside the body, at  *)
(* the end of the frame.  The driver (PeerSession::run_select / the tokio  *)
(* Framed loop) appends whatever arrives and calls the decoder until it    *)
(* asks for more.  One action: Feed(k) - k more units arrive, followed by  *)
(* the decode loop.                                                        *)
(*                                                                         *)
(* Contract (checked here on the abstract decoder, and on the real ones by *)
(* replaying every transition of this model with concrete bytes):          *)
(*   - a message is delivered exactly when its last unit has arrived,      *)
(*     never earlier, never later, never twice;                            *)
(*   - a length that cannot be a frame is an error as soon as the header   *)
(*     is there, never "need more";                                        *)
(*   - what is delivered does not depend on how the stream was cut.        *)
(***************************************************************************)
EXTENDS Naturals, Sequences, FiniteSets, TLC

CONSTANTS Classes,      \* frame classes available for this protocol instance
          MaxFrames

VARIABLE s

\* hdronly: a frame that is only a header; good: header + body; badbody: complete but unparsable;
\* short / long: declared length below the minimum / above the maximum; skip: complete frame of a type the
\* decoder passes over silently (RTR); trunc: the stream ends inside this frame
Units(cl) == IF cl = "hdronly" THEN 2 ELSE 4
HdrUnits == 2

FrameSeqs == UNION {[1..n -> Classes] : n \in 1..MaxFrames}
RECURSIVE Total(_)
Total(fs) == IF fs = <<>> THEN 0 ELSE Units(Head(fs)) + Total(Tail(fs))

\* the decode loop on a buffer holding `avail` units in front of frame idx
RECURSIVE DecodeAll(_, _, _, _, _)
DecodeAll(fs, idx, pos, fed, out) ==
  IF idx > Len(fs) THEN [idx |-> idx, pos |-> pos, out |-> out, dead |-> FALSE]
  ELSE LET cl == fs[idx] avail == fed - pos IN
       IF avail < HdrUnits THEN [idx |-> idx, pos |-> pos, out |-> out, dead |-> FALSE]
       ELSE IF cl \in {"short", "long"} THEN [idx |-> idx, pos |-> pos, out |-> Append(out, "err"), dead |-> TRUE]
       ELSE IF cl = "trunc" \/ avail < Units(cl) THEN [idx |-> idx, pos |-> pos, out |-> out, dead |-> FALSE]
       ELSE IF cl = "badbody" THEN [idx |-> idx + 1, pos |-> pos + Units(cl), out |-> Append(out, "err"), dead |-> TRUE]
       ELSE IF cl = "skip" THEN DecodeAll(fs, idx + 1, pos + Units(cl), fed, out)
       ELSE DecodeAll(fs, idx + 1, pos + Units(cl), fed, Append(out, cl))

\* a truncated frame is the last one and is never completed
WellFormed(fs) == \A i \in 1..Len(fs) : fs[i] = "trunc" => i = Len(fs)
Avail(fs) == Total(fs) - (IF fs # <<>> /\ fs[Len(fs)] = "trunc" THEN 1 ELSE 0)     \* the last unit never arrives

Init == \E fs \in {x \in FrameSeqs : WellFormed(x)} :
           s = [fs |-> fs, fed |-> 0, idx |-> 1, pos |-> 0, out |-> <<>>, dead |-> FALSE]

Feed(k) == /\ ~s.dead /\ s.fed + k <= Avail(s.fs)
           /\ LET r == DecodeAll(s.fs, s.idx, s.pos, s.fed + k, s.out) IN
              s' = [s EXCEPT !.fed = s.fed + k, !.idx = r.idx, !.pos = r.pos, !.out = r.out, !.dead = r.dead]
Next == \E k \in 1..(4 * MaxFrames) : Feed(k)
Spec == Init /\ [][Next]_s

\* ---- the contract ---------------------------------------------------------------
\* what must have been delivered once `fed` units arrived, however they were cut
Canon(fs, fed) == DecodeAll(fs, 1, 0, fed, <<>>)
FragmentationIndependent == s.out = Canon(s.fs, s.fed).out /\ s.dead = Canon(s.fs, s.fed).dead
\* nothing is left undecided: a frame that is completely there has been consumed or rejected
NoCompleteFrameLeft ==
  ~s.dead /\ s.idx <= Len(s.fs) =>
     LET cl == s.fs[s.idx] avail == s.fed - s.pos IN
     avail < HdrUnits \/ (cl \notin {"short", "long"} /\ (cl = "trunc" \/ avail < Units(cl)))
Progress == s.pos <= s.fed /\ Len(s.out) <= Len(s.fs)
=============================================================================
